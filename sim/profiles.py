"""
Per-property workloads.  Each profile returns a list of pool tasks
(kind, root, uidx, unit, plan) for a tier.  The oracles that decide the
property are listed in checks.OWNS; everything else the engine observes is
reported as 'findings owned by other properties'.
"""
from . import sched, workload

TIER = {
    "quick":    {"corpus_sets": 2, "gen": 600, "plan": {"n_inputs": 6, "maxlen": 28, "n_sched": 5, "exhaustive_n": 6, "n_multi": 2, "n_cover": 6}},
    "thorough": {"corpus_sets": 10, "gen": 6000, "plan": {"n_inputs": 12, "maxlen": 96, "n_sched": 10, "exhaustive_n": 9, "n_multi": 4, "n_cover": 32}},
}

RULES = {
    "default": "unit = (program source, argv); per unit: DFA-guided + corpus inputs, a canonical one-byte-per-call pass with EOF forked at every "
               "atomic boundary, then scheduled sessions (all 2^(n-1) compositions for short inputs, every single cut point, seeded random "
               "schedules with faults). evaluations = canonical runs + scheduled sessions. A session is non-trivial iff its canonical trace "
               "consumes >= 2 bytes, has >= 1 hook event or a terminal code, and its script places >= 1 cut/fault inside the consumed region; "
               "distinct = distinct (source hash, argv, input, op script).",
}


def _corpus_tasks(root, tier, tree, plan, force=None, need=(), stream="coptions", base_idx=0, filt=None, avoid=()):
    tasks = []
    idx = base_idx
    for entry in workload.corpus(tree):
        if filt and not filt(entry):
            continue
        for k in range(TIER[tier]["corpus_sets"]):
            rng = sched.rng_for(root, stream, idx)
            argv = workload.sample_argv(rng, base=entry[2], need=need, force=force, avoid=avoid)
            tasks.append(("sim", root, idx, workload.corpus_unit(entry, argv), plan))
            idx += 1
    return tasks, idx


def _gen_tasks(root, n, plan, base_idx, bias=None, force=None, stream="program", gen_kw=None, extra_need=()):
    tasks = []
    for i in range(n):
        idx = base_idx + i
        p = workload.generated_unit(root, idx, bias=bias, stream=stream, **(gen_kw or {}))
        rng = sched.rng_for(root, "goptions", idx)
        argv = workload.sample_argv(rng, need=list(p["need"]) + list(extra_need), force=force)
        unit = {"label": "gen:%s:%d" % (stream, idx), "source": p["source"], "argv": argv, "seeds": p["samples"],
                "canaries": p["canaries"]}
        tasks.append(("sim", root, idx, unit, plan))
    return tasks


def c02(root, tier, tree):
    T = TIER[tier]
    # "restart": a session abandoned in the middle and started again on the same struct must then parse like a fresh one
    # (nothing but what start() sets up may carry over)
    plan = dict(T["plan"], faults=["cut", "retail", "reloc", "ystop", "eof", "zero", "ilv", "post", "restart"], want=["L2", "LAWS"])
    tasks, idx = _corpus_tasks(root, tier, tree, plan)
    tasks += _gen_tasks(root, T["gen"], plan, 100000)
    tasks += _gen_tasks(root, T["gen"] // 3, plan, 200000, bias={"oos": True, "strings": True}, gen_kw={"want_yield": True}, stream="program-oos")
    return tasks


def c03(root, tier, tree):
    T = TIER[tier]
    plan = dict(T["plan"], faults=["cut", "retail", "reloc", "ystop", "eof", "zero", "ilv", "post", "restart", "dfree", "check"],
                fills=[0, 170], want=["L2", "LAWS", "MEM"], n_sched=4, exhaustive_n=4)
    tasks = []
    idx = 0
    has_str = lambda e: ("str[" in e[1] or "raw{" in e[1])
    for st in range(4):
        t, idx = _corpus_tasks(root, tier, tree, plan, force={"storage": st}, filt=has_str, base_idx=idx,
                               avoid=("-fallocate-str-space-dynamic", "-fallocate-str-space-dynamic-on-demand"))
        tasks += t
    n = T["gen"]
    for st in range(4):
        tasks += _gen_tasks(root, n // 3, plan, 100000 + st * 20000, bias={"oos": True, "strings": True}, force={"storage": st},
                            stream="program-mem%d" % st)
    # allocation lifecycle programs: defaults, deletes in every kind of place, then uses of the same string
    for st in (0, 1, 2, 3, 3, 3):
        tasks += _gen_tasks(root, n // 5, plan, 300000 + len(tasks), force={"storage": st}, gen_kw={"lifecycle": True},
                            stream="program-life%d" % st)
    return tasks


def c04(root, tier, tree):
    T = TIER[tier]
    plan = dict(T["plan"], faults=["cut", "retail", "ystop", "eof", "post"], want=["LAWS", "SPIN"], n_sched=3, exhaustive_n=0,
                single_cuts=False, n_multi=0, n_inputs=T["plan"]["n_inputs"] + 4, maxlen=max(48, T["plan"]["maxlen"]))
    tasks, idx = _corpus_tasks(root, tier, tree, plan)
    # any must-reject corpus program that this tree accepts is simulated like any other
    for entry in workload.must_reject_corpus(tree):
        rng = sched.rng_for(root, "coptions-fail", idx)
        argv = workload.sample_argv(rng, base=entry[2], need=["-fyield-support", "-feof-support"])
        tasks.append(("sim", root, idx, workload.corpus_unit(entry, argv), plan))
        idx += 1
    tasks += _gen_tasks(root, T["gen"], plan, 100000, bias={"liveness": True, "oos": True, "strings": True}, stream="program-live")
    tasks += _gen_tasks(root, T["gen"] // 2, plan, 200000)
    tasks += _gen_tasks(root, T["gen"], plan, 300000, gen_kw={"nearmiss": True}, stream="program-nearmiss")
    # cycles through the multi-symbol error transition in front of a negated character class
    tasks += _gen_tasks(root, T["gen"] // 2, plan, 400000, gen_kw={"nearmiss2": True}, stream="program-nearmiss2")
    # yields and end-of-input on non-consuming paths inside loops (end clauses, else clauses, handlers)
    tasks += _gen_tasks(root, T["gen"] // 2, plan, 450000, gen_kw={"nearmiss3": True}, stream="program-nearmiss3")
    # cycles guarded by data: action-only if/elif chains that leave the loop only for some values of the outputs
    tasks += _gen_tasks(root, T["gen"] // 2, plan, 500000, gen_kw={"nearmiss4": True}, stream="program-nearmiss4")
    return tasks


def c10(root, tier, tree):
    T = TIER[tier]
    plan = dict(T["plan"], faults=["cut", "retail", "ystop", "eof", "zero", "post", "reloc"], want=["L2", "LAWS"])
    tasks, idx = _corpus_tasks(root, tier, tree, plan, force={"indirect": True})
    tasks += _gen_tasks(root, T["gen"], plan, 100000, force={"indirect": True}, stream="program-proto")
    tasks += _gen_tasks(root, T["gen"] // 2, plan, 200000, force={"indirect": True}, gen_kw={"want_yield": True},
                        bias={"oos": True, "strings": True}, stream="program-yield")
    tasks += _twin_tasks(root, tier, tree, T)
    return tasks


def _twin_tasks(root, tier, tree, T):
    """strict-done twins (oracle SD): corpus, generated and frame-family programs"""
    from . import twins, families
    tasks = []
    tplan = {"n_inputs": T["plan"]["n_inputs"] + 2, "maxlen": T["plan"]["maxlen"]}
    idx = 600000
    for entry in workload.corpus(tree):
        rng = sched.rng_for(root, "twin-options", idx)
        argv = workload.sample_argv(rng, base=entry[2], force={"indirect": True, "strict": False})
        u = workload.corpus_unit(entry, argv)
        u["_fn"] = twins.twin_unit
        tasks.append(("call", root, idx, u, tplan))
        idx += 1
    for i in range(T["gen"] // 2):
        idx = 610000 + i
        if i % 2 == 0:
            p = workload.generated_unit(root, idx, stream="program-twin")
            src, need, seeds, can = p["source"], p["need"], p["samples"], p["canaries"]
        else:
            rng = sched.rng_for(root, "family-twin", idx)
            spec = families.gen_f1(rng, {"tail": rng.choice(("done", "done", "end", "finish"))})
            src, need, can = spec["source"], spec["need"], {}
            seeds = [x.hex() for x in families.f1_inputs(rng, spec, 8)]
        rng = sched.rng_for(root, "twin-options", idx)
        argv = workload.sample_argv(rng, need=need, force={"indirect": True, "strict": False})
        u = {"label": "twin:%d" % idx, "source": src, "argv": argv, "seeds": seeds, "canaries": can, "_fn": twins.twin_unit}
        tasks.append(("call", root, idx, u, tplan))
    return tasks


def c17(root, tier, tree):
    T = TIER[tier]
    plan = dict(T["plan"], faults=["cut", "retail", "ystop", "eof", "post", "reloc", "ilv"], want=["L2", "LAWS"])
    tasks, idx = _corpus_tasks(root, tier, tree, plan, force={"eof": True})
    tasks += _gen_tasks(root, T["gen"], plan, 100000, force={"eof": True}, gen_kw={"want_eof": True}, stream="program-eof")
    return tasks


PROFILES = {"C02": c02, "C03": c03, "C04": c04, "C10": c10, "C17": c17}

LEVEL_TEXT = {
    "C02": "seeded exploration of chunk schedules x faults against the fold of the canonical one-byte trace; exhaustive over all compositions for short inputs",
    "C03": "seeded exploration under ASan+UBSan with in-driver memory laws after every call and allocation tracking of the generated code",
    "C04": "bounded liveness in simulated ticks with exact configuration-repeat confirmation of every over-budget call",
    "C10": "seeded exploration of call histories (calls after terminal results, yield re-entry, zero-length reads) against absolute protocol laws",
    "C17": "EOF injected at every atomic boundary of every canonical pass (fork + end) and as real end() calls in scheduled runs",
}
