"""
Replica agreement (oracle L4) for
  C12  one source, several representation-option sets, identical op scripts
  C20  one (source, argv), several compiler-process environments / histories
"""
import json
import os
import re
import shutil
import subprocess
import sys
import time

from . import nmfu_child, cbuild, engine, sched, oracles, inputs as inputs_mod, workload, checks, gen_random

HERE = os.path.dirname(os.path.abspath(__file__))

TIER = {
    "quick": {"corpus_sets": 1, "gen": 360, "n_inputs": 5, "maxlen": 24, "n_sched": 3, "replicas": 4, "c20_sources": 300},
    "thorough": {"corpus_sets": 4, "gen": 2500, "n_inputs": 10, "maxlen": 64, "n_sched": 6, "replicas": 6, "c20_sources": 2500},
}


class UnionCaps:
    def __init__(self, metas):
        fl = [m["flags"] for m in metas]
        self.indirect = all(f["INDIRECT_START_PTR"] for f in fl)
        self.yields = any(f["YIELD_SUPPORT"] for f in fl)
        self.has_end = all(f["EOF_SUPPORT"] for f in fl)
        self.has_free = any(f["DYNAMIC_MEMORY"] for f in fl)
        self.zero_len = any(f["ZERO_LEN_INPUT_SUPPORT"] for f in fl)
        self.poison_restart = False     # replicas restart on a zeroed struct (sources may read strings by index)


def _filter_script(lines, flags):
    out = []
    for l in lines:
        p = l.split()
        if p[0] == "OP":
            if p[2] == "FEED0" and not flags["ZERO_LEN_INPUT_SUPPORT"]:
                continue
            if p[2] in ("FREE",) and not flags["DYNAMIC_MEMORY"]:
                continue
            if p[2] == "CHECK" and p[3] == "1" and not flags["DYNAMIC_MEMORY"]:
                continue
        out.append(l)
    return out


SKIP = ("FEED0", "FREE")


def compare_replicas(builds, xs, root, uidx, n_sched, res, label, source, stream="rsched", faults=None):
    """
    builds: [(name, comp, drv, scratch, descr)], all accepted and built.
    Drives all replicas with identical scripts and compares each with replica 0.
    """
    metas = [b[1]["meta"] for b in builds]
    caps = UnionCaps(metas)
    rsc = sched.rng_for(root, stream, uidx)
    faults = set(faults or ("cut", "retail", "reloc", "ystop", "eof", "zero", "post", "restart", "dfree", "check"))
    runs = []
    rid = 0
    for xi, x in enumerate(xs):
        n = len(x)
        plans = [[0, n]] if n else [[0, 0]]
        plans.append(list(range(n + 1)))
        for _ in range(n_sched):
            plans.append(sched.random_cuts(rsc, n))
        for cuts in plans:
            fs = set(rsc.sample(sorted(faults), min(4, len(faults)))) | {"cut"}
            ops, fired = sched.scheduled_ops(rsc, n, caps, cuts, fs, 0, 0)
            runs.append((rid, xi, sched.run_text(rid, {0: x}, ops), fired))
            rid += 1
    traces = []
    for (name, comp, drv, scratch, descr) in builds:
        fl = comp["meta"]["flags"]
        mine = [(r, _filter_script(lines, fl)) for (r, xi, lines, fired) in runs]
        out = engine.exec_runs(drv, mine, scratch)
        traces.append((out, dict(mine)))
    st = res["stats"]
    for (r, xi, lines, fired) in runs:
        st["scheduled_runs"] += 1
        for k, v in fired.items():
            st["fired"][k] = st["fired"].get(k, 0) + v
        ref_run, ref_crash = traces[0][0].get(r, (None, ("harness", "missing", "")))
        for bi, (name, comp, drv, scratch, descr) in enumerate(builds):
            run, crash = traces[bi][0].get(r, (None, ("harness", "missing", "")))
            ctx = {"label": label, "source": source, "argv": comp.get("_argv", []), "inputs": {"0": xs[xi].hex()},
                   "script": traces[bi][1][r], "replica": descr}
            st["sessions"] += 1
            if crash is not None:
                st["crashes"] += 1
                engine._add_crash(res, crash, ctx, "replica:" + name)
                if bi > 0 and ref_crash is None and crash[0] != "harness":
                    # the reference replica completed this script: a replica that dies on it does not "parse the same"
                    ctx2 = dict(ctx)
                    ctx2["replicas"] = [builds[0][4], descr]
                    ctx2["ref_script"] = traces[0][1][r]
                    engine._add(res, oracles.V("L4", "replica-crashes-where-reference-completes", -1, 0,
                                               "%s: %s ; %s completed the same script" % (name, crash[1], builds[0][0])), ctx2, "replica:" + name)
                continue
            if bi > 0 and ref_crash is not None and ref_crash[0] != "harness":
                # the reference replica died on this script but this one completed it
                ctx2 = dict(ctx)
                ctx2["replicas"] = [builds[0][4], descr]
                ctx2["ref_script"] = traces[0][1][r]
                engine._add(res, oracles.V("L4", "replica-crashes-where-reference-completes", -1, 0,
                                           "%s: %s ; %s completed the same script" % (builds[0][0], ref_crash[1], name)), ctx2, "replica:" + name)
            engine._account(st, run)
            for f in oracles.run_findings(run):
                engine.annotate_full(f, comp["meta"])
                engine._add(res, f, ctx, "replica:" + name)
            ops = {i: oracles.parse_op(l) for i, l in enumerate([l for l in traces[bi][1][r] if l.startswith("OP ")])}
            lf, pr = oracles.law_check(run.session(0), ops, comp["meta"]["flags"])
            for f in lf + oracles.end_law_check(run.session(0), {a[0] for a in run.aborts}):
                engine._add(res, f, ctx, "replica:" + name)
            if bi == 0 or ref_crash is not None:
                continue
            with_pos = metas[0]["flags"]["INDIRECT_START_PTR"] and comp["meta"]["flags"]["INDIRECT_START_PTR"]
            ff = oracles.replica_check(ref_run.session(0), run.session(0), with_pos, builds[0][0], name, skip_kinds=SKIP)
            st["calls_compared"] += min(len(ref_run.calls), len(run.calls))
            for f in ff:
                ctx2 = dict(ctx)
                ctx2["replicas"] = [builds[0][4], descr]
                ctx2["ref_script"] = traces[0][1][r]
                engine._add(res, f, ctx2, "replica:" + name)
            if len(run.calls) >= 3 and any(c.events for c in run.calls):
                st["nontrivial"].append(engine.sha("%s|%s|%s|%s" % (label, name, xs[xi].hex(), "\n".join(traces[bi][1][r]))))
    if runs and len(res["samples"]) < 3:
        r0 = traces[0][0].get(runs[-1][0], (None, None))[0]
        res["samples"].append({"kind": "replica-run", "replicas": [b[4] for b in builds], "input": xs[runs[-1][1]].hex(),
                               "script": [l for l in runs[-1][2] if l.startswith("OP ")][:12],
                               "trace_of_replica_0": [c.brief() for c in (r0.calls[:8] if r0 else [])]})


def _new_res(label, argv):
    return {"label": label, "argv": argv, "status": "simulated", "verdict": None, "findings": [], "samples": [],
            "stats": {"canonical_runs": 0, "scheduled_runs": 0, "sessions": 0, "api_calls": 0, "ticks": 0, "fired": {},
                      "crashes": 0, "calls_compared": 0, "nontrivial": [], "spin": 0, "slow": 0, "replicas_built": 0,
                      "replicas_rejected": 0, "replicas_unbuildable": 0, "text_equal": 0, "text_differs": 0}}


# ------------------------------------------------------------------ C12

REP_DIMS = ["storage", "u8", "perstate", "userptr", "packed", "pragma", "nocpp", "indirect", "zero", "crl"]


def c12_option_sets(rng, k, base_force):
    """k option sets; the first is the default representation. Pairwise-ish coverage by random
    assignment with every dimension forced to differ from the default in at least one replica."""
    sets = [dict(base_force, storage=0, u8=False, perstate=False, userptr=False, packed=False, pragma=False, nocpp=False,
                 indirect=base_force.get("indirect", False), zero=False, crl=4)]
    for i in range(1, k):
        f = dict(base_force)
        f["storage"] = (i + rng.randrange(3)) % 4 if i > 3 else i % 4
        for d in ("u8", "perstate", "userptr", "packed", "pragma", "nocpp", "zero"):
            f[d] = rng.random() < 0.5
        if "indirect" not in base_force:
            f["indirect"] = rng.random() < 0.5
        f["crl"] = rng.choice((2, 4, 6, 255))
        sets.append(f)
    return sets


def c12_unit(unit, plan, root, uidx, workdir, tree):
    T = plan
    t0 = time.time()
    res = _new_res(unit["label"], unit["base_argv"])
    rng = sched.rng_for(root, "c12opts", uidx)
    base_force = {"O": rng.choice((0, 1, 2, 2, 3, 3)), "eof": unit.get("eof", rng.random() < 0.3), "strict": rng.random() < 0.3}
    if "-fyield-support" in unit["need"] or "-fyield-support" in unit["base_argv"]:
        base_force["indirect"] = True
    sets = c12_option_sets(rng, T["replicas"], base_force)
    builds = []
    verdicts = []
    try:
        for i, f in enumerate(sets):
            argv = workload.sample_argv(rng, base=[a for a in unit["base_argv"] if not a.startswith("-O")], need=unit["need"], force=f)
            comp = nmfu_child.compile_in_fork(unit["source"], argv, tree=tree)
            verdicts.append(comp["verdict"])
            if comp["verdict"] != "accepted":
                res["stats"]["replicas_rejected"] += 1
                continue
            comp["_argv"] = argv
            tag = "r%d_%d_%d" % (os.getpid(), uidx, i)
            try:
                drv = cbuild.build(comp, workdir, tag, canaries=unit.get("canaries"))
            except cbuild.BuildError as e:
                if e.stage == "generated":
                    res["stats"]["replicas_unbuildable"] += 1
                    cbuild.cleanup(workdir, tag)
                    continue
                raise
            builds.append(("R%d" % i, comp, drv, os.path.join(workdir, tag), {"argv": argv}))
            res["stats"]["replicas_built"] += 1
        res["verdict"] = verdicts[0] if verdicts else None
        if len(set(v.split(":")[0] for v in verdicts)) > 1:
            # representation options must not change the accept/reject verdict either
            f = oracles.V("L4V", "verdict-depends-on-representation-options", -1, 0, str(list(zip([s for s in sets], verdicts)))[:600])
            engine._add(res, f, {"label": unit["label"], "source": unit["source"], "argv": unit["base_argv"], "inputs": {}, "script": []}, "compile")
        if len(builds) < 2:
            res["status"] = "rejected" if not builds and verdicts and not verdicts[0].startswith("accepted") else "unbuildable"
            return res
        rin = sched.rng_for(root, "c12input", uidx)
        xs = inputs_mod.make_inputs(rin, builds[0][1]["meta"]["dfa"], T["n_inputs"], T["maxlen"],
                                    [bytes.fromhex(h) for h in unit.get("seeds", [])])
        compare_replicas(builds, xs, root, uidx, T["n_sched"], res, unit["label"], unit["source"])
        return res
    finally:
        for b in builds:
            shutil.rmtree(b[3], ignore_errors=True)
        res["wall"] = time.time() - t0


# ------------------------------------------------------------------ C20

def normalise_c(text):
    text = re.sub(r"0x[0-9a-f]+", "0x?", text)
    text = re.sub(r"skipaction_\d+", "skipaction_?", text)
    return text


def fresh_compile(job, hashseed, aslr_off, timeout=300, pyopt=False):
    env = dict(os.environ)
    env["PYTHONHASHSEED"] = str(hashseed)
    env["PYTHONDONTWRITEBYTECODE"] = "1"
    # pyopt: run the interpreter with -O (asserts stripped, __debug__ false)
    cmd = [sys.executable] + (["-O"] if pyopt else []) + [os.path.join(HERE, "nmfu_child.py")]
    if aslr_off and shutil.which("setarch"):
        cmd = [shutil.which("setarch"), "-R"] + cmd
    try:
        p = subprocess.run(cmd, input=json.dumps(job).encode(), capture_output=True, timeout=timeout, env=env)
    except subprocess.TimeoutExpired:
        return {"verdict": "timeout", "c": None, "h": None, "meta": None}
    if p.returncode != 0 or not p.stdout:
        return {"verdict": "internal:process-died", "error": p.stderr.decode("latin-1", "replace")[-500:], "c": None, "h": None, "meta": None}
    try:
        return json.loads(p.stdout.decode())
    except ValueError:
        return {"verdict": "internal:bad-output", "error": p.stdout[-300:].decode("latin-1", "replace"), "c": None, "h": None, "meta": None}


NAME_POOL = ["s0", "s1", "n0", "n1", "b0", "e0", "h0", "h1", "dst", "tok", "url", "n", "ok"]


def failing_macro_program(rng):
    """
    A source that is rejected *in the middle of a macro expansion* (undefined hook / output / wrong
    type inside the macro body), with macro parameters named like globals other programs use:
    the kind of broken file a long-running build process may have seen earlier.
    """
    r = rng
    pn = r.sample(NAME_POOL, 4)
    kind = r.choice(("undef-hook", "undef-out", "type", "nested"))
    bad = {"undef-hook": "nosuchhook();", "undef-out": "nosuchout = 3;", "type": "%s = true;" % pn[0], "nested": "inner(%s);" % pn[0]}[kind]
    L = ["out str[6] zz;", "out int yy = 0;", "hook hh;"]
    if kind == "nested":
        L.append("macro inner(out q) { q += [65]; nosuchhook(); }")
    L += ["macro mm(out %s, out %s, hook %s, match %s) {" % (pn[0], pn[1], pn[2], pn[3]),
          "    %s += %s;" % (pn[0], pn[3]), "    %s = [%s + 1];" % (pn[1], pn[1]), "    %s();" % pn[2], "    " + bad, "}",
          "parser {", '    "a";', '    mm(zz, yy, hh, /[a-f]+/);', '    ";";', "}"]
    return "\n".join(L) + "\n"


def make_history(rng, pool, target, tree):
    """A seeded history script of prior compilations and allocator/gc perturbations."""
    steps = []
    if rng.random() < 0.35:
        steps.append({"k": "compile", "source": failing_macro_program(rng), "argv": ["-O%d" % rng.randrange(4)]})
    for _ in range(rng.choice((1, 2, 3, 5))):
        k = rng.random()
        if k < 0.55:
            lab, src, base = rng.choice(pool)
            argv = workload.sample_argv(rng, base=base, need=["-fyield-support", "-feof-support"] if rng.random() < 0.5 else [])
            steps.append({"k": "compile", "source": src, "argv": argv})
        elif k < 0.7:
            steps.append({"k": "compile", "source": target["source"], "argv": target["argv"]})
        elif k < 0.85:
            steps.append({"k": "junk", "n": rng.choice((10, 1000, 50000)), "keep": rng.random() < 0.5})
        else:
            steps.append({"k": "gc", "mode": rng.choice(("disable", "collect", "threshold1", "enable", "freeze"))})
    return steps


def verdict_class(v):
    """
    The property speaks of 'the same accept/reject verdict': accepted | rejected (with whatever diagnosis;
    which of two applicable checks fires first may legitimately depend on iteration order) | internal error.
    """
    if v == "accepted":
        return "accepted"
    if v.startswith("rejected:") or v in ("syntax", "flags-error"):
        return "rejected"
    return v


def c20_unit(unit, plan, root, uidx, workdir, tree):
    T = plan
    t0 = time.time()
    res = _new_res(unit["label"], unit["argv"])
    rng = sched.rng_for(root, "c20env", uidx)
    target = {"source": unit["source"], "argv": unit["argv"]}
    pool = unit["_pool"]
    envs = [{"name": "R0", "hashseed": 0, "aslr_off": True, "history": []}]
    for i in range(1, T["replicas"]):
        envs.append({"name": "R%d" % i, "hashseed": rng.randrange(1, 2 ** 31), "aslr_off": rng.random() < 0.25,
                     "history": make_history(rng, pool, target, tree) if rng.random() < 0.85 else [],
                     "pyopt": rng.random() < 0.35})
    comps = []
    builds = []
    try:
        for e in envs:
            job = {"tree": tree, "history": e["history"], "target": target, "want_dfa": e["name"] == "R0"}
            comp = fresh_compile(job, e["hashseed"], e["aslr_off"], pyopt=e.get("pyopt", False))
            comp["_argv"] = unit["argv"]
            comps.append(comp)
        res["verdict"] = comps[0]["verdict"]
        vs = [verdict_class(c["verdict"]) for c in comps]
        descr = [{"name": e["name"], "hashseed": e["hashseed"], "aslr_off": e["aslr_off"], "pyopt": e.get("pyopt", False),
                  "history": [(s["k"], s.get("argv") or s.get("mode") or s.get("n")) for s in e["history"]]} for e in envs]
        ctx0 = {"label": unit["label"], "source": unit["source"], "argv": unit["argv"], "inputs": {}, "script": [],
                "envs": [{"name": e["name"], "hashseed": e["hashseed"], "aslr_off": e["aslr_off"], "history": e["history"],
                          "pyopt": e.get("pyopt", False)} for e in envs]}
        res["stats"]["verdicts"] = vs[0]
        if len(set(vs)) > 1:
            f = oracles.V("L4V", "verdict-depends-on-environment-or-history", -1, 0, str(list(zip([d["name"] for d in descr], vs)))[:800])
            engine._add(res, f, ctx0, "compile")
        if vs[0] != "accepted":
            res["status"] = "rejected" if vs[0].startswith("rejected") or vs[0] == "syntax" else "compiler-error"
            # a rejected program still counts as a (verdict) comparison
            res["stats"]["sessions"] += len(comps)
            res["stats"]["nontrivial"].append(engine.sha("verdict|%s|%s" % (unit["label"], " ".join(unit["argv"]))))
            return res
        ref_text = normalise_c(comps[0]["c"]) + normalise_c(comps[0]["h"])
        for i, (e, comp) in enumerate(zip(envs, comps)):
            if comp["verdict"] != "accepted":
                continue
            same = i > 0 and normalise_c(comp["c"]) + normalise_c(comp["h"]) == ref_text
            if same:
                res["stats"]["text_equal"] += 1
                continue
            if i > 0:
                res["stats"]["text_differs"] += 1
                comp["meta"]["dfa"] = comps[0]["meta"].get("dfa")
            tag = "e%d_%d_%d" % (os.getpid(), uidx, i)
            try:
                drv = cbuild.build(comp, workdir, tag)
            except cbuild.BuildError as ex:
                if ex.stage == "generated":
                    res["stats"]["replicas_unbuildable"] += 1
                    cbuild.cleanup(workdir, tag)
                    if i == 0:
                        res["status"] = "unbuildable"
                        return res
                    # R0 builds but this replica's C does not: behaviour depends on the environment
                    f = oracles.V("L4V", "buildability-depends-on-environment-or-history", -1, 0, (ex.output or "")[-300:])
                    engine._add(res, f, ctx0, "build")
                    continue
                raise
            builds.append((e["name"], comp, drv, os.path.join(workdir, tag), descr[i]))
            res["stats"]["replicas_built"] += 1
        if len(builds) >= 2:
            rin = sched.rng_for(root, "c20input", uidx)
            xs = inputs_mod.make_inputs(rin, comps[0]["meta"]["dfa"], T["n_inputs"], T["maxlen"],
                                        [bytes.fromhex(h) for h in unit.get("seeds", [])])
            compare_replicas(builds, xs, root, uidx, T["n_sched"], res, unit["label"], unit["source"], stream="c20sched")
            for f in res["findings"]:
                f["ctx"]["envs"] = ctx0["envs"]
        else:
            res["stats"]["sessions"] += len(comps)
            res["stats"]["nontrivial"].append(engine.sha("text|%s|%s" % (unit["label"], " ".join(unit["argv"]))))
        return res
    finally:
        for b in builds:
            shutil.rmtree(b[3], ignore_errors=True)
        res["wall"] = time.time() - t0


# ------------------------------------------------------------------ task lists and check entry

def tasks_c12(root, tier, tree):
    T = TIER[tier]
    tasks = []
    idx = 0
    for entry in workload.corpus(tree):
        for k in range(T["corpus_sets"]):
            unit = {"label": entry[0], "source": entry[1], "base_argv": entry[2], "need": [],
                    "seeds": [s.hex() for s in inputs_mod.corpus_strings(entry[1])], "_fn": c12_unit}
            tasks.append(("call", root, idx, unit, T))
            idx += 1
    for i in range(T["gen"]):
        idx = 100000 + i
        if i % 3 == 2:
            # allocation lifecycle programs (deletes in every kind of place, then uses); no index reads, see DESIGN 8.3
            p = workload.generated_unit(root, idx, stream="program-c12-life", lifecycle=True, noindex=True)
        else:
            p = workload.generated_unit(root, idx, bias={"strings": True, "oos": i % 2 == 0, "noindex": True}, stream="program-c12")
        unit = {"label": "gen:program-c12:%d" % idx, "source": p["source"], "base_argv": [], "need": p["need"],
                "seeds": p["samples"], "canaries": p["canaries"], "_fn": c12_unit}
        tasks.append(("call", root, idx, unit, T))
    # family programs (capacity-stress inputs come with them): out-of-space handlers around appends that share a
    # transition with hooks / yields / per-byte foreach actions are where pointer mode and storage mode meet
    from . import families
    for j in range(T["gen"] // 3):
        idx = 200000 + j
        fam = ("F7", "F8", "F1", "F5", "F6", "F8")[j % 6]
        rng = sched.rng_for(root, "c12-family-" + fam, idx)
        if fam in ("F7", "F1"):
            spec = families.gen_f1(rng, {"foreach": fam == "F7", "try": rng.choice(("oos-wait", "oos-wait", "oos-finish", "none"))})
            xs = families.f1_inputs(rng, spec, 10)
        elif fam == "F5":
            spec = families.gen_f5(rng)
            xs = families.f5_inputs(rng, spec, 8)
        elif fam == "F8":
            spec = families.gen_f8(rng)
            xs = families.f8_inputs(rng, spec, 10)
        else:
            spec = families.gen_f6(rng)
            xs = families.f6_inputs(rng, spec, 6)
        unit = {"label": "gen:c12-family-%s:%d" % (fam, idx), "source": spec["source"], "base_argv": [], "need": spec["need"],
                "seeds": [x.hex() for x in xs], "canaries": {o["name"]: 90 for o in spec.get("outputs", []) if o.get("canary")},
                "_fn": c12_unit}
        tasks.append(("call", root, idx, unit, T))
    # F9: string constants and computed bytes (assignments, defaults, char-appends) - the copy of a constant is emitted
    # differently per storage mode and string type; own index range, so the units above are what they were
    for j in range(T["gen"] // 8):
        idx = 260000 + j
        rng = sched.rng_for(root, "c12-family-F9", idx)
        spec = families.gen_f9(rng)
        if spec.get("toolong"):
            continue
        xs = families.f9_inputs(rng, spec, 6)
        unit = {"label": "gen:c12-family-F9:%d" % idx, "source": spec["source"], "base_argv": [], "need": spec["need"],
                "seeds": [x.hex() for x in xs], "canaries": {"zc0": 90, "zc1": 90}, "_fn": c12_unit}
        tasks.append(("call", root, idx, unit, T))
    return tasks


def tasks_c20(root, tier, tree):
    T = TIER[tier]
    pool = workload.corpus(tree) + workload.must_reject_corpus(tree)
    tasks = []
    srcs = []
    for entry in workload.corpus(tree):
        srcs.append((entry[0], entry[1], entry[2], [], [s.hex() for s in inputs_mod.corpus_strings(entry[1])]))
    for entry in workload.must_reject_corpus(tree):
        srcs.append((entry[0], entry[1], entry[2], [], []))
    i = 0
    while len(srcs) < T["c20_sources"]:
        idx = 100000 + i
        i += 1
        if i % 5 == 3:
            p = workload.generated_unit(root, idx, stream="program-c20-macro", macroprog=True)
        elif i % 5 == 4:
            p = workload.generated_unit(root, idx, stream="program-c20-greedy", greedyprog=True)
        elif i % 2 == 0:
            p = workload.generated_unit(root, idx, stream="program-c20-regex", regexprog=True)
        else:
            p = workload.generated_unit(root, idx, stream="program-c20", bias={"rich": i % 4 == 1})
        srcs.append(("gen:program-c20:%d" % idx, p["source"], [], p["need"], p["samples"]))
    srcs = srcs[:max(T["c20_sources"], 1)]
    # programs on the edge of the compile-time liveness rules: here the *verdict* is the sensitive observable (the cycle
    # search walks symbol sets and transition lists whose order depends on hashes and addresses)
    for j in range(T["c20_sources"] * 3 // 10):
        idx = 180000 + j
        kw = ({"nearmiss2": True}, {"nearmiss": True}, {"nearmiss4": True}, {"nearmiss2": True}, {"nearmiss3": True})[j % 5]
        p = workload.generated_unit(root, idx, stream="program-c20-nearmiss%d" % (j % 5), **kw)
        srcs.append(("gen:program-c20-nearmiss:%d" % idx, p["source"], [], p["need"], p["samples"]))
    for idx, (label, src, base, need, seeds) in enumerate(srcs):
        rng = sched.rng_for(root, "c20opts", idx)
        argv = workload.sample_argv(rng, base=base, need=need)
        unit = {"label": label, "source": src, "argv": argv, "seeds": seeds, "_pool": pool, "_fn": c20_unit}
        tasks.append(("call", root, idx, unit, T))
    return tasks


RULE = {
    "C12": "unit = one source built under several representation-option sets (same -O level, EOF and strict-done settings); all replicas run identical "
           "seeded op scripts (schedules, yield re-entry, relocation, lifecycle ops) and are compared call by call with replica 0 (codes, hook events, "
           "outputs and lengths; absolute offsets when both are indirect). evaluations = replica sessions. Non-trivial = session with >= 3 calls and >= 1 hook event; "
           "distinct by (source, replica options, input, script).",
    "C20": "unit = one (source, argv) compiled in fresh interpreters: R0 (hash seed 0, ASLR off, no history) and replicas with seeded hash seeds, ASLR on, "
           "gc modes, junk allocations and histories of prior compilations. Verdict classes must agree; accepted replicas whose normalised C text differs from R0 "
           "are built and driven by identical op scripts (text-equal replicas agree by construction). evaluations = replica sessions + verdict comparisons; "
           "distinct by (source, argv[, input, script]).",
}

LEVEL = {
    "C12": "replica agreement under identical seeded op scripts across representation options",
    "C20": "replica agreement of parsers compiled under seeded process environments and compilation histories",
}


def run(prop, tier, root, tree, workdir, workers, limit=0, dump=None):
    t0 = time.time()
    tasks = tasks_c12(root, tier, tree) if prop == "C12" else tasks_c20(root, tier, tree)
    if limit:
        tasks = tasks[:limit]
    results = checks.run_pool(tasks, workdir, tree, workers)
    if dump:
        json.dump(results, open(dump, "w"), default=str)
    extra = {"replicas": {k: sum((r.get("stats") or {}).get(k, 0) for r in results) for k in
                          ("replicas_built", "replicas_rejected", "replicas_unbuildable", "text_equal", "text_differs")}}
    if prop == "C20":
        vc = {}
        for r in results:
            v = (r.get("stats") or {}).get("verdicts")
            if v:
                vc[v.split(":")[0] + (":" + v.split(":")[1] if ":" in v else "")] = vc.get(v, 0) + 1
        extra["verdict_classes_compared"] = vc
    return checks.finish_check(prop, tier, root, results, t0, tree, workdir, LEVEL[prop], RULE[prop], extra_cov=extra, min_simulated=5)


def replay(prop, doc, tree, workdir):
    """Replica replays re-run every recorded replica and compare again."""
    res = _new_res(doc.get("label"), doc.get("argv"))
    builds = []
    try:
        if prop == "C20" or doc.get("envs"):
            comps = []
            for e in doc["envs"]:
                job = {"tree": tree, "history": e["history"], "target": {"source": doc["source"], "argv": doc["argv"]}, "want_dfa": True}
                reps = 1 if e["aslr_off"] else 3
                for _ in range(reps):
                    comp = fresh_compile(job, e["hashseed"], e["aslr_off"], pyopt=e.get("pyopt", False))
                    comp["_argv"] = doc["argv"]
                    comps.append((e, comp))
            vs = {c["verdict"] for _, c in comps}
            if len(vs) > 1:
                print("replay finding: L4V verdicts differ: %s" % sorted(vs))
                if doc["oracle"] == "L4V":
                    print("VIOLATION property=%s replay=%s" % (prop, doc.get("_path", "?")))
                    return 1
            for i, (e, comp) in enumerate(comps):
                if comp["verdict"] != "accepted":
                    continue
                tag = "rp%d_%d" % (os.getpid(), i)
                try:
                    drv = cbuild.build(comp, workdir, tag)
                except cbuild.BuildError:
                    continue
                builds.append((e["name"] + "_%d" % i, comp, drv, os.path.join(workdir, tag), {"name": e["name"]}))
        else:
            for i, d in enumerate(doc["replicas"]):
                comp = nmfu_child.compile_in_fork(doc["source"], d["argv"], tree=tree)
                if comp["verdict"] != "accepted":
                    continue
                comp["_argv"] = d["argv"]
                tag = "rp%d_%d" % (os.getpid(), i)
                try:
                    drv = cbuild.build(comp, workdir, tag, canaries=doc.get("canaries"))
                except cbuild.BuildError:
                    continue
                builds.append(("R%d" % i, comp, drv, os.path.join(workdir, tag), d))
        if len(builds) < 2:
            print("replay: fewer than two replicas build under this tree")
            return 0
        x = bytes.fromhex(doc["inputs"].get("0", ""))
        lines = doc.get("ref_script") or doc["script"]
        body = [l for l in lines if l.startswith("OP ")]
        outs = []
        for b in builds:
            fl = b[1]["meta"]["flags"]
            # the recorded script is the unfiltered one of replica 0; filter per replica
            mine = _filter_script(sched.run_text(0, {0: x}, body), fl)
            out = engine.exec_runs(b[2], [(0, mine)], b[3])
            outs.append(out.get(0))
        bad = False
        for i in range(1, len(builds)):
            if outs[0][1] is not None or outs[i][1] is not None:
                if (outs[0][1] is None) != (outs[i][1] is None):
                    print("replay finding: one replica crashed: %s / %s" % (outs[0][1], outs[i][1]))
                    bad = True
                continue
            with_pos = builds[0][1]["meta"]["flags"]["INDIRECT_START_PTR"] and builds[i][1]["meta"]["flags"]["INDIRECT_START_PTR"]
            ff = oracles.replica_check(outs[0][0].session(0), outs[i][0].session(0), with_pos, builds[0][0], builds[i][0], skip_kinds=SKIP)
            for f in ff:
                print("replay finding: %s %s %s" % (f["oracle"], f["kind"], f["detail"][:400]))
                bad = True
        if bad:
            print("VIOLATION property=%s replay=%s" % (prop, doc.get("_path", "?")))
            return 1
        print("replay: replicas agree")
        return 0
    finally:
        for b in builds:
            shutil.rmtree(b[3], ignore_errors=True)
