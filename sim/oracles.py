"""
Oracles over driver traces.

L1  protocol laws P1..P8 and memory laws M1..M5 (program agnostic, absolute)
L2  schedule refinement: every schedule must equal the fold of the canonical
    one-byte-per-call trace (codes, absolute positions, hook events with
    arguments/offsets/output snapshots, outputs after each call, end() results
    at every prefix)
L4  replica agreement (same op script, several builds)

Every finding is a dict:
  {"oracle": "L2"|"P1".., "kind": str, "op": int, "sid": int, "detail": str}
"""
from .trace import code_class, TERMINAL


def V(oracle, kind, op, sid, detail):
    return {"oracle": oracle, "kind": kind, "op": op, "sid": sid, "detail": detail}


def parse_op(line):
    """'OP 0 FEED 3 7 01 ek' -> dict"""
    p = line.split()
    d = {"sid": int(p[1]), "name": p[2], "args": p[3:]}
    if d["name"] == "FEED":
        d["lo"], d["hi"] = int(p[3]), int(p[4])
    elif d["name"] == "FEED0":
        d["lo"] = d["hi"] = int(p[3])
    return d


# ------------------------------------------------------------------ canonical trace

class Step:
    __slots__ = ("i", "code", "cls", "pos_before", "pos_after", "events", "snap", "state")

    def __init__(self, i, call, pos_before, pos_after):
        self.i = i
        self.code = call.code
        self.cls = call.cls()
        self.pos_before = pos_before
        self.pos_after = pos_after
        self.events = call.events
        self.snap = call.snap
        self.state = call.state


class Canon:
    """Atomic steps of one (build, input, fill) and the end() result before each."""

    def __init__(self, run, n, indirect, has_end):
        self.n = n
        self.indirect = indirect
        self.has_end = has_end
        self.steps = []
        self.eofs = []          # eofs[j] = drained end() result with steps[:j] executed
        self.start = None
        self.findings = []      # law findings on the canonical run itself
        self.ok = True          # False if the canonical run is unusable (abort/crash/desync)
        self.terminal_at = None
        self.states_seen = set()
        self._build(run)

    def _build(self, run):
        calls = run.session(0)
        i = -1
        pos = 0
        pend_eof = []
        last_snap = None
        last_state = None
        for c in calls:
            if c.kind == "START":
                self.start = c
                last_snap, last_state = c.snap, c.state
                continue
            if c.kind in ("FEND", "FENDC"):
                pend_eof.append(c)
                continue
            if c.kind in ("FREE", "END", "ENDC"):
                continue
            if c.kind == "FEED":
                i += 1
                pos_before = i
            else:  # REFEED
                pos_before = pos if self.indirect else i
            if self.indirect:
                pos_after = c.pos
            else:
                pos_after = i + 1 if c.cls() == "OK" else i
            eof = self._eof(pend_eof)
            pend_eof = []
            # eofs[m] = drained end() result with m atomic steps executed; the first observation is
            # kept, later observations at the same m (around a no-op re-invocation) must agree
            if len(self.eofs) == len(self.steps):
                self.eofs.append(eof)
            elif eof is not None and self.eofs[len(self.steps)] is not None and \
                    _eof_key(eof) != _eof_key(self.eofs[len(self.steps)]):
                self.findings.append(V("L2E", "eof-differs-across-noop", c.op, 0, "byte %d" % i))
            if pos_before == i + 1 and c.kind != "FEED":
                # re-invocation with start == end after an early-advance yield: must be a no-op (P6)
                if c.code != "OK" or c.events or c.snap != last_snap or c.state != last_state or pos_after != pos_before:
                    self.findings.append(V("P6", "reinvoke-at-chunk-end-not-noop", c.op, 0,
                                           "byte %d: %s" % (i, c.brief())))
                pos = pos_after
                continue
            st = Step(i, c, pos_before, pos_after)
            self.steps.append(st)
            self.states_seen.add(c.state)
            if self.terminal_at is None and st.cls in TERMINAL:
                self.terminal_at = len(self.steps) - 1
                # P3: a terminal code leaves *start on the byte in flight
                if self.indirect and pos_after != pos_before:
                    self.findings.append(V("P3", "terminal-code-moved-start", c.op, 0,
                                           "byte %d: %s entered at %d" % (i, c.brief(), pos_before)))
            if self.indirect and self.terminal_at is None:
                if not (pos_before <= pos_after <= i + 1):
                    self.findings.append(V("P1", "start-out-of-chunk", c.op, 0, "byte %d: %s entered at %d" % (i, c.brief(), pos_before)))
                if st.cls == "OK" and pos_after != i + 1:
                    self.findings.append(V("P1", "OK-before-chunk-end", c.op, 0, "byte %d: %s chunk [%d,%d)" % (i, c.brief(), i, i + 1)))
                    # the reference schedule itself broke the protocol: it cannot serve as a reference
                    self.ok = False
            pos = pos_after
            last_snap, last_state = c.snap, c.state
        if len(self.eofs) == len(self.steps):
            self.eofs.append(self._eof(pend_eof))
        if run.aborts or not run.complete:
            self.ok = False

    def _eof(self, calls):
        if not calls:
            return None
        return calls

    def consumed_before_terminal(self):
        if self.terminal_at is None:
            return None
        return self.steps[self.terminal_at].i


class CoarseCanon:
    """
    Stand-in for Canon built from ONE whole-buffer session (yields re-invoked on the same buffer).
    Used only to check reference models when the one-byte schedule could not be completed.
    """
    coarse = True

    def __init__(self, calls, n, indirect):
        self.n = n
        self.indirect = indirect
        self.has_end = False
        self.steps = []
        self.eofs = []
        self.start = None
        self.findings = []
        self.ok = True
        self.terminal_at = None
        self.states_seen = set()
        pos = 0
        for c in calls:
            if c.kind == "START":
                self.start = c
                continue
            if c.kind not in ("FEED", "REFEED", "REFEED1"):
                continue
            st = Step(c.pos if indirect else 0, c, pos, c.pos)
            # the byte "in flight" is only known for terminal codes (the pointer rests on it)
            self.steps.append(st)
            if self.terminal_at is None and st.cls in TERMINAL:
                self.terminal_at = len(self.steps) - 1
                break
            pos = c.pos

    def consumed_before_terminal(self):
        if self.terminal_at is None:
            return None
        return self.steps[self.terminal_at].pos_after


def _eof_key(calls):
    if calls is None:
        return None
    return tuple((c.code, tuple(c.events), c.snap) for c in calls)


# ------------------------------------------------------------------ L2: fold comparison

def fold_check(canon, calls, ops, flags, compare_eof=True):
    """
    calls: the Call records of ONE session of a scheduled run, in order.
    ops:   {op index: parsed op dict} for that run.
    Returns findings (first L2 divergence per incarnation only) and probe counters.
    """
    out = []
    probes = {"cuts_on_states": set(), "eof_checked": 0, "post_terminal_calls": 0, "yield_reentries": 0,
              "retail": 0, "calls_compared": 0}
    indirect = canon.indirect
    ai = 0
    terminal = None
    diverged = False
    pend_hi = None
    pos = 0
    last_snap = None
    ended = False
    eof_buf = []
    eof_kind = None

    def flush_eof():
        nonlocal eof_buf, eof_kind, diverged
        if not eof_buf:
            return
        group, kind = eof_buf, eof_kind
        eof_buf, eof_kind = [], None
        if diverged or terminal is not None or not compare_eof:
            return
        exp = canon.eofs[ai] if ai < len(canon.eofs) else None
        if exp is None:
            return
        probes["eof_checked"] += 1
        if _eof_key(exp) != _eof_key(group):
            out.append(V("L2E", "end-result-depends-on-schedule", group[0].op, group[0].sid,
                         "%s after %d atomic steps: expected %s got %s" % (
                             kind, ai, [(c.brief(), c.snap) for c in exp], [(c.brief(), c.snap) for c in group])))
            diverged = True

    for c in calls:
        if c.kind in ("FEND", "END", "FENDC", "ENDC"):
            if c.kind in ("FENDC", "ENDC") and eof_buf:
                eof_buf.append(c)
            else:
                flush_eof()
                if ended:
                    # end() already ran on the real state: later end() calls are post-EOF history
                    continue
                eof_buf, eof_kind = [c], c.kind
            if c.kind == "END":
                ended = True
            continue
        flush_eof()
        if c.kind == "START":
            ai, terminal, diverged, pend_hi, pos, ended = 0, None, False, None, 0, False
            if canon.start is not None:
                if (c.code, c.events, c.snap) != (canon.start.code, canon.start.events, canon.start.snap):
                    out.append(V("L2", "start-differs", c.op, c.sid, "expected %s/%s got %s/%s" % (
                        canon.start.brief(), canon.start.snap, c.brief(), c.snap)))
                    diverged = True
            last_snap = c.snap
            continue
        if c.kind == "FREE" or ended:
            continue
        op = ops.get(c.op, {})
        if c.kind in ("FEED", "FEED0"):
            lo, hi = op.get("lo", 0), op.get("hi", 0)
            q = lo
            pend_hi = hi
        else:
            q = pos if indirect else None
            hi = pend_hi
            probes["yield_reentries"] += 1
            if c.kind == "REFEED1":
                probes["retail"] += 1
        if terminal is not None:
            probes["post_terminal_calls"] += 1
            pos = c.pos
            last_snap = c.snap
            continue
        if diverged:
            pos = c.pos
            if c.cls() in TERMINAL:
                terminal = c.cls()
            continue
        # ---- expected outcome = fold of atomic steps
        exp_events = []
        exp_code = "OK"
        exp_pos = q
        exp_snap = last_snap
        if q is None:
            out.append(V("HARNESS", "reentry-in-direct-mode", c.op, c.sid, c.brief()))
            diverged = True
            continue
        cur = q
        consumed_any = False
        if cur < hi:
            while True:
                if ai >= len(canon.steps):
                    out.append(V("L2", "desync-ran-past-canonical", c.op, c.sid, "at %d" % cur))
                    diverged = True
                    break
                st = canon.steps[ai]
                if st.i != cur:
                    out.append(V("L2", "desync", c.op, c.sid, "canonical step on byte %d, schedule at %d" % (st.i, cur)))
                    diverged = True
                    break
                ai += 1
                consumed_any = True
                exp_events.extend(st.events)
                exp_snap = st.snap
                if st.cls != "OK":
                    exp_code = st.code
                    exp_pos = st.pos_after if indirect else -1
                    cur = st.pos_after if indirect else cur
                    break
                cur = cur + 1
                if cur >= hi:
                    exp_pos = hi if indirect else -1
                    break
            if diverged:
                continue
        else:
            exp_pos = q if indirect else -1
        probes["calls_compared"] += 1
        got = (c.code, c.pos if indirect else -1, c.events, c.snap)
        want = (exp_code, exp_pos, exp_events, exp_snap)
        if got != want:
            what = []
            if got[0] != want[0]:
                what.append("code")
            if got[1] != want[1]:
                what.append("position")
            if got[2] != want[2]:
                what.append("events")
            if got[3] != want[3]:
                what.append("outputs")
            out.append(V("L2", "+".join(what), c.op, c.sid,
                         "chunk [%s,%s) entered at %s: canonical fold gives %s pos=%s events=%s snap=%s ; schedule gave %s pos=%s events=%s snap=%s" % (
                             op.get("lo"), hi, q, want[0], want[1], _ev(want[2]), want[3], got[0], got[1], _ev(got[2]), got[3])))
            diverged = True
        if c.cls() in TERMINAL:
            terminal = c.cls()
        if c.cls() == "OK" or c.cls() == "YIELD":
            probes["cuts_on_states"].add(c.state)
        pos = c.pos
        last_snap = c.snap
    flush_eof()
    return out, probes


def _ev(evs):
    return "[" + ",".join("%s(%d@%d|%s)" % e for e in evs) + "]"


# ------------------------------------------------------------------ L1: protocol laws on any session

def law_check(calls, ops, flags, is_canonical=False):
    """
    Protocol laws that need no reference: P1, P2, P4, P6, P8.
    flags: resolved ProgramFlag dict of the build.
    """
    out = []
    probes = {"fail_then_call": 0, "zero_len": 0, "end_after_fail": 0, "zero_after_fail": 0}
    indirect = flags["INDIRECT_START_PTR"]
    yields = flags["YIELD_SUPPORT"]
    failed = False
    terminal = None
    prev = None
    pend_hi = None
    pos = 0
    for c in calls:
        cls = c.cls()
        if c.kind == "START":
            failed, terminal, prev, pend_hi, pos = False, None, c, None, 0
            if cls == "UNKNOWN":
                out.append(V("P4", "undeclared-result-code", c.op, c.sid, c.brief()))
            continue
        if c.kind == "FREE":
            continue
        if cls == "UNKNOWN":
            out.append(V("P4", "undeclared-result-code", c.op, c.sid, c.brief()))
        if cls == "YIELD" and not yields:
            out.append(V("P4", "yield-code-without-yield-support", c.op, c.sid, c.brief()))
        op = ops.get(c.op, {})
        if c.kind in ("END", "FEND", "ENDC", "FENDC"):
            if failed:
                probes["end_after_fail"] += 1
                if cls != "FAIL":
                    out.append(V("P2", "end-after-FAIL-not-FAIL", c.op, c.sid, c.brief()))
                if c.events:
                    out.append(V("P2", "hook-after-FAIL", c.op, c.sid, c.brief()))
            if c.kind in ("END", "ENDC"):
                prev = c
            continue
        if c.kind in ("FEED", "FEED0"):
            lo, hi = op.get("lo", 0), op.get("hi", 0)
            q = lo
            pend_hi = hi
        else:
            q = pos
            hi = pend_hi
            lo = q
        if failed:
            probes["fail_then_call"] += 1
            if c.kind == "FEED0" or q == hi:
                probes["zero_after_fail"] += 1
                if cls != "FAIL":
                    out.append(V("P2Z", "zero-length-feed-after-FAIL-not-FAIL", c.op, c.sid, c.brief()))
            else:
                if cls != "FAIL":
                    out.append(V("P2", "feed-after-FAIL-not-FAIL", c.op, c.sid, c.brief()))
                if indirect and c.pos != q:
                    out.append(V("P2", "feed-after-FAIL-moved-start", c.op, c.sid, "%s entered at %d" % (c.brief(), q)))
            if c.events:
                out.append(V("P2", "hook-after-FAIL", c.op, c.sid, c.brief()))
            if prev is not None and c.snap != prev.snap:
                out.append(V("P2", "outputs-changed-after-FAIL", c.op, c.sid, "%s -> %s" % (prev.snap, c.snap)))
        elif terminal is None:
            if indirect:
                if not (q <= c.pos <= hi):
                    out.append(V("P1", "start-out-of-chunk", c.op, c.sid, "%s chunk [%d,%d) entered at %d" % (c.brief(), lo, hi, q)))
                if cls == "OK" and c.pos != hi:
                    out.append(V("P1", "OK-before-chunk-end", c.op, c.sid, "%s chunk [%d,%d)" % (c.brief(), lo, hi)))
            if c.kind == "FEED0" and flags["ZERO_LEN_INPUT_SUPPORT"]:
                probes["zero_len"] += 1
                if cls != "OK" or c.events or (prev is not None and (c.snap != prev.snap or c.state != prev.state)):
                    out.append(V("P6", "zero-length-feed-not-noop", c.op, c.sid, c.brief()))
        if cls == "FAIL":
            failed = True
        if cls in TERMINAL and terminal is None:
            terminal = cls
        pos = c.pos
        prev = c
    return out, probes


def end_law_check(calls, aborted_ops=()):
    """P8: a drained end() finishes with DONE, FAIL or a finish code.
    aborted_ops: ops cut short by the tick clock (reported as P7/P5, not again as P8)."""
    out = []
    groups = []
    for c in calls:
        if c.kind in ("END", "FEND"):
            groups.append([c])
        elif c.kind in ("ENDC", "FENDC") and groups:
            groups[-1].append(c)
    for g in groups:
        if g[0].op in aborted_ops:
            continue
        if g[-1].cls() not in TERMINAL:
            out.append(V("P8", "end-did-not-reach-a-terminal-code", g[0].op, g[0].sid, str([x.brief() for x in g])))
        for x in g[:-1]:
            if x.cls() != "YIELD":
                out.append(V("P8", "end-continued-after-non-yield", x.op, x.sid, x.brief()))
    return out


# ------------------------------------------------------------------ memory laws / aborts from the run record

def run_findings(run):
    """M-laws (K lines), leaks (L lines) and tick-clock aborts (X lines) of one run."""
    out = []
    for (op, sid, n, msg) in run.checkfails:
        for m in msg.split():
            law = m.split(":", 1)[0]
            out.append(V(law, "memory-law", op, sid, m))
    for (op, sid, nb, by) in run.leaks:
        out.append(V("M4L", "leak-after-free", op, sid, "%d blocks / %d bytes allocated by the parser still live after free()" % (nb, by)))
    for (op, sid, kind, detail) in run.aborts:
        if kind == "SPIN":
            out.append(V("P7", "call-never-returns", op, sid, detail))
        elif kind == "LIVELOCK":
            out.append(V("P5", "yield-livelock", op, sid, detail))
        elif kind in ("SLOW", "YSLOW"):
            out.append(V("SLOW", "inconclusive-slow", op, sid, detail))
        elif kind == "WALLTIMEOUT":
            out.append(V("HARNESS", "wall-timeout", op, sid, detail))
    for (op, sid, text) in run.warnings:
        if text.startswith("no-end-function") or text.startswith("no-free-function"):
            continue
        out.append(V("HARNESS", "driver-warning", op, sid, text))
    return out


# ------------------------------------------------------------------ L4: replica agreement

def replica_key(call, with_pos):
    ev = tuple((e[0], e[1], e[2] if with_pos else 0, e[3]) for e in call.events)
    return (call.kind if call.kind != "REFEED1" else "REFEED", call.code, call.pos if with_pos else 0, ev, call.snap)


def replica_check(calls_a, calls_b, with_pos, label_a="A", label_b="B", skip_kinds=()):
    """Two replicas driven by the same op script must produce the same call-by-call trace."""
    out = []
    a = [c for c in calls_a if c.kind not in skip_kinds]
    b = [c for c in calls_b if c.kind not in skip_kinds]
    for x, y in zip(a, b):
        if replica_key(x, with_pos) != replica_key(y, with_pos):
            out.append(V("L4", "replicas-disagree", x.op, x.sid, "%s: %s snap=%s events=%s | %s: %s snap=%s events=%s" % (
                label_a, x.brief(), x.snap, _ev(x.events), label_b, y.brief(), y.snap, _ev(y.events))))
            return out
    if len(a) != len(b):
        out.append(V("L4", "replicas-disagree-call-count", -1, 0, "%s made %d calls, %s made %d" % (label_a, len(a), label_b, len(b))))
    return out
