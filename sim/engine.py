"""
Simulation engine: compile (real nmfu, forked), build (clang + sanitizers +
tick clock), canonical pass, scheduled passes with faults, oracles.

One *unit* = one (source, argv) pair.  Everything a unit does is a pure
function of (root seed, unit index, tree under test).
"""
import hashlib
import json
import os
import re
import shutil
import subprocess
import tempfile
import time

from . import nmfu_child, cbuild, sched, inputs as inputs_mod, oracles, trace

DRV_ENV = dict(os.environ)
DRV_ENV.update({
    "ASAN_OPTIONS": "detect_leaks=0:abort_on_error=0:exitcode=99:detect_stack_use_after_return=0:"
                    "allocator_may_return_null=1:symbolize=1:handle_abort=1:print_legend=0:"
                    "external_symbolizer_path=" + (shutil.which("llvm-symbolizer") or ""),
    "UBSAN_OPTIONS": "print_stacktrace=1:halt_on_error=1:exitcode=99",
})


OUTPUT_LIMIT = 256 << 20


def _limit_output():
    import resource
    resource.setrlimit(resource.RLIMIT_FSIZE, (OUTPUT_LIMIT, OUTPUT_LIMIT))


def sha(s):
    if isinstance(s, str):
        s = s.encode()
    return hashlib.sha256(s).hexdigest()[:16]


LAST_COV = [0, 0]   # (guards, guards hit) of the most covering driver process since the last reset


def exec_runs(drv, runs, scratch, timeout=300):
    """
    runs: [(rid, [lines])].  Executes them in as few driver processes as possible; a
    sanitizer abort ends the process, the crashed run is recorded and the rest re-run.
    Returns {rid: (Run|None, crash|None)}, crash = (where, summary, stderr_tail).
    """
    results = {}
    pending = list(runs)
    path = os.path.join(scratch, "script_%d.txt" % os.getpid())
    guard = 0
    while pending and guard < len(runs) + 2:
        guard += 1
        with open(path, "w") as f:
            for rid, lines in pending:
                f.write("\n".join(lines))
                f.write("\n")
        # the trace goes to a file with a size limit: a parser that answers every re-invocation with another yield while its
        # outputs keep changing (no exact configuration repeat) would otherwise fill the harness' memory with trace lines
        opath = path + ".out"
        try:
            with open(opath, "wb") as ofh:
                p = subprocess.run([drv, path], stdout=ofh, stderr=subprocess.PIPE, timeout=timeout, env=DRV_ENV,
                                   preexec_fn=_limit_output)
            err = p.stderr.decode("latin-1", "replace")
            rc = p.returncode
        except subprocess.TimeoutExpired as e:
            err = "HARNESS-TIMEOUT"
            rc = -9
        try:
            with open(opath, "rb") as ofh:
                out = ofh.read().decode("latin-1")
            os.unlink(opath)
        except OSError:
            out = ""
        if rc == -25:       # SIGXFSZ: the trace outgrew OUTPUT_LIMIT
            err = "HARNESS-OUTPUT-FLOOD " + err[-500:]
        runs_p, order, cov = trace.parse(out)
        if cov:
            LAST_COV[0] = max(LAST_COV[0], cov[0])
            LAST_COV[1] = max(LAST_COV[1], cov[1])
        crashed = None
        for k, (rid, lines) in enumerate(pending):
            r = runs_p.get(rid)
            if r is not None and r.complete:
                results[rid] = (r, None)
                continue
            crashed = k
            if rc == 0:
                results[rid] = (r, ("harness", "driver-exited-0-with-incomplete-run", err[-2000:]))
            elif rc == -9:
                results[rid] = (r, ("harness", "driver-timeout", ""))
            elif rc == -25:
                results[rid] = (r, ("harness", "driver-output-flood (trace larger than %d MB)" % (OUTPUT_LIMIT >> 20), err[-300:]))
            else:
                where, summary = trace.classify_crash(err)
                if where is None:
                    where, summary = "harness", "driver died rc=%s" % rc
                results[rid] = (r, (where, summary, err[-3000:]))
            break
        if crashed is None:
            break
        pending = pending[crashed + 1:]
    try:
        os.unlink(path)
    except OSError:
        pass
    return results


def hot_offsets(canon):
    hot = set()
    prev = None
    for st in canon.steps:
        if st.events or st.cls != "OK" or (prev is not None and st.snap != prev):
            hot.add(st.i)
        prev = st.snap
    return sorted(hot)


INDEX_READ = re.compile(r"\b(?!str\b)[A-Za-z_]\w*\[")

DEFAULT_PLAN = {
    "n_inputs": 8,
    "maxlen": 32,
    "n_sched": 6,             # random schedules per input
    "exhaustive_n": 6,        # all 2^(n-1) compositions for inputs up to this length
    "n_multi": 2,             # interleaved multi-session runs per unit
    "faults": ["cut", "retail", "reloc", "ystop", "eof", "zero", "post", "ilv"],
    "fills": [0],
    "single_cuts": True,      # every single cut point once for each input
    "n_cover": 0,             # extra inputs aimed at (machine state, byte) pairs (shortest path into a state + one byte)
    "want": ["L2", "LAWS", "MEM", "SPIN"],
}


def simulate_unit(unit, plan, root, uidx, workdir, tree="/repo"):
    """
    unit: {"label","source","argv","seeds":[bytes hex],...}
    Returns a result dict (JSON-able).
    """
    t0 = time.time()
    P = dict(DEFAULT_PLAN)
    P.update(plan or {})
    res = {"label": unit["label"], "argv": unit["argv"], "src_sha": sha(unit["source"]), "status": None,
           "verdict": None, "findings": [], "stats": {}, "samples": []}
    comp = nmfu_child.compile_in_fork(unit["source"], unit["argv"], tree=tree)
    res["verdict"] = comp["verdict"]
    if comp["verdict"] != "accepted":
        res["status"] = "rejected" if comp["verdict"].startswith("rejected") or comp["verdict"] in ("syntax", "flags-error") else "compiler-error"
        res["error"] = comp.get("error")
        res["wall"] = time.time() - t0
        return res
    meta = comp["meta"]
    tag = "u%d_%d" % (os.getpid(), uidx)
    try:
        drv = cbuild.build(comp, workdir, tag, canaries=unit.get("canaries"))
    except cbuild.BuildError as e:
        res["status"] = "unbuildable" if e.stage == "generated" else "harness-error"
        res["error"] = e.stage + ": " + (e.output or "")[-600:]
        cbuild.cleanup(workdir, tag)
        res["wall"] = time.time() - t0
        return res
    scratch = os.path.join(workdir, tag)
    res["status"] = "simulated"
    try:
        _simulate_built(unit, P, root, uidx, comp, drv, scratch, res)
    finally:
        cbuild.cleanup(workdir, tag)
    res["wall"] = time.time() - t0
    return res


def _ctx(unit, comp, inputs_by_sid, lines):
    c = {"label": unit["label"], "source": unit["source"], "argv": unit["argv"],
         "inputs": {str(k): v.hex() for k, v in inputs_by_sid.items()}, "script": lines}
    if unit.get("family"):
        c["family"] = unit["family"]
    return c


def _phase_a(unit, P, comp, drv, scratch, res, stats, caps, xs, indices, rid0, canons, all_states, rescue):
    meta = comp["meta"]
    flags = meta["flags"]
    runsA = []
    keyA = {}
    rid = rid0
    for xi in indices:
        x = xs[xi]
        for fill in P["fills"]:
            lines = sched.run_text(rid, {0: x}, sched.canonical_ops(len(x), caps, fill))
            runsA.append((rid, lines))
            keyA[rid] = (xi, fill, lines)
            rid += 1
    outA = exec_runs(drv, runsA, scratch)
    for r_id, (xi, fill, lines) in keyA.items():
        run, crash = outA.get(r_id, (None, ("harness", "missing", "")))
        stats["canonical_runs"] += 1
        ctx = _ctx(unit, comp, {0: xs[xi]}, lines)
        if crash is not None:
            stats["crashes"] += 1
            _add_crash(res, crash, ctx, "canonical")
            stats["canon_unusable"] += 1
            if unit.get("family") and fill == 0 and caps.indirect:
                rescue.append(xi)
            continue
        _account(stats, run)
        ops = {i: oracles.parse_op(l) for i, l in enumerate([l for l in lines if l.startswith("OP ")])}
        calls = run.session(0)
        for f in oracles.run_findings(run):
            annotate_full(f, meta)
            _add(res, f, ctx, "canonical")
        cn = oracles.Canon(run, len(xs[xi]), caps.indirect, caps.has_end)
        lf, pr = oracles.law_check(calls, ops, flags, True)
        seen_p1 = set()
        for f in cn.findings + lf:
            annotate_stall(f, calls, meta, xs[xi])
            k = (f["oracle"], f["kind"], f["op"])
            if f["oracle"] == "P1" and k in seen_p1:
                continue        # Canon and the laws report the same call
            seen_p1.add(k)
            _add(res, f, ctx, "canonical")
        for f in oracles.end_law_check(calls, {a[0] for a in run.aborts}):
            _add(res, f, ctx, "canonical")
        _merge_probes(stats, pr)
        all_states |= cn.states_seen
        for st in cn.steps:
            if st.cls == "YIELD":
                stats["yields_seen"] += 1
        if cn.terminal_at is not None:
            k = cn.steps[cn.terminal_at].cls
            stats["terminals"][k] = stats["terminals"].get(k, 0) + 1
        if not cn.ok:
            stats["canon_unusable"] += 1
            continue
        canons[(xi, fill)] = cn
        if unit.get("family") and fill == 0:
            from . import families
            for f in families.check_canon(unit["family"], xs[xi], cn, flags):
                _add(res, f, ctx, "canonical-model")
            stats["model_checked"] = stats.get("model_checked", 0) + 1
        if len(res["samples"]) < 2:
            res["samples"].append({"kind": "canonical", "input": xs[xi].hex(), "script_head": lines[:8],
                                   "steps": [(s.i, s.code, s.pos_after, len(s.events)) for s in cn.steps[:12]]})


def _simulate_built(unit, P, root, uidx, comp, drv, scratch, res):
    meta = comp["meta"]
    flags = meta["flags"]
    caps = sched.Caps(flags)
    caps.poison_restart = not INDEX_READ.search(unit["source"])
    want = set(P["want"])
    faults = set(P["faults"])
    stats = {"canonical_runs": 0, "scheduled_runs": 0, "sessions": 0, "api_calls": 0, "bytes_fed": 0, "ticks": 0,
             "fired": {k: 0 for k in sched.FAULT_KINDS}, "crashes": 0, "canon_unusable": 0,
             "eof_checked": 0, "post_terminal_calls": 0, "yield_reentries": 0, "calls_compared": 0,
             "states_total": meta["n_states"], "states_cut": 0, "cov": None, "nontrivial": [],
             "fail_then_call": 0, "zero_len": 0, "end_after_fail": 0, "zero_after_fail": 0,
             "exhaustive_inputs": 0, "slow": 0, "spin": 0, "yields_seen": 0, "terminals": {}}
    res["stats"] = stats
    rin = sched.rng_for(root, "input", uidx)
    seeds = [bytes.fromhex(h) for h in unit.get("seeds", [])]
    xs = inputs_mod.make_inputs(rin, meta["dfa"], P["n_inputs"], P["maxlen"], seeds)
    for h in unit.get("must_inputs", []):
        b = bytes.fromhex(h)
        if b not in xs:
            xs.append(b)
    n_regular = len(xs)
    canons = {}
    cut_states = set()
    all_states = set()
    rescue = []
    LAST_COV[0] = LAST_COV[1] = 0
    # ---------------- phase A: canonical pass over the regular inputs, then over state-cover inputs that aim at the
    # machine states the regular inputs did not rest in (coverage feedback; own PRNG stream; deterministic because
    # the canonical traces are)
    _phase_a(unit, P, comp, drv, scratch, res, stats, caps, xs, range(0, n_regular), 0, canons, all_states, rescue)
    if P["n_cover"]:
        rest = inputs_mod.resting_states(meta["dfa"])
        for b in inputs_mod.cover_inputs(sched.rng_for(root, "input-cover", uidx), meta["dfa"], P["n_cover"], P["maxlen"],
                                         avoid=all_states):
            if b not in xs:
                xs.append(b)
        stats["cover_inputs"] = len(xs) - n_regular
        if len(xs) > n_regular:
            _phase_a(unit, P, comp, drv, scratch, res, stats, caps, xs, range(n_regular, len(xs)), 50000, canons, all_states, rescue)
        stats["states_rest_total"] = len(rest)
        stats["states_rest_seen"] = len(rest & all_states)
    # ---------------- rescue: the one-byte schedule died (sanitizer report).  For family units the reference model
    # is still checked, against a whole-buffer session, so that the protocol side of the defect is not hidden
    # behind the memory report.
    if rescue:
        from . import families
        rr = []
        for k, xi in enumerate(rescue):
            x = xs[xi]
            rr.append((900000 + k, sched.run_text(900000 + k, {0: x}, ["OP 0 START 0", "OP 0 FEED 0 %d 0 -" % len(x)])))
        outR = exec_runs(drv, rr, scratch)
        for k, xi in enumerate(rescue):
            run, crash = outR.get(900000 + k, (None, ("harness", "missing", "")))
            if crash is not None or run is None or run.aborts:
                continue
            cc = oracles.CoarseCanon(run.session(0), len(xs[xi]), caps.indirect)
            ctx = _ctx(unit, comp, {0: xs[xi]}, rr[k][1])
            for f in families.check_canon(unit["family"], xs[xi], cc, flags):
                _add(res, f, ctx, "rescue-model")
            stats["model_checked"] = stats.get("model_checked", 0) + 1
    # ---------------- phase B: scheduled passes
    runsB = []
    keyB = {}
    rsc = sched.rng_for(root, "schedule", uidx)
    rid = 100000
    if "L2" in want or "LAWS" in want:
        for (xi, fill), cn in sorted(canons.items()):
            x = xs[xi]
            n = len(x)
            hot = hot_offsets(cn)
            plans = []
            if xi >= n_regular:
                plans.append(([0, n], {"cut"}))
                if n >= 2:
                    plans.append(([0, n - 1, n], {"cut"} | (faults & {"post"})))
            elif n >= 2 and n <= P["exhaustive_n"]:
                stats["exhaustive_inputs"] += 1
                for mask in range(1 << (n - 1)):
                    plans.append((sched.cuts_from_mask(n, mask), {"cut"} | (faults & {"post"})))
            else:
                plans.append(([0, n], {"cut"}))
                if P["single_cuts"] and n >= 2:
                    cps = list(range(1, n))
                    if len(cps) > 48:
                        cps = sorted(rsc.sample(cps, 48))
                    for c in cps:
                        plans.append(([0, c, n], {"cut"}))
            for _ in range(P["n_sched"] if xi < n_regular else 1):
                k = rsc.randrange(2, 5)
                fs = set(rsc.sample(sorted(faults - {"ilv"}), min(k, len(faults - {"ilv"})))) | {"cut"}
                plans.append((sched.random_cuts(rsc, n, hot=hot), fs))
            for cuts, fs in plans:
                ops_l, fired = sched.scheduled_ops(rsc, n, caps, cuts, fs, 0, fill)
                lines = sched.run_text(rid, {0: x}, ops_l)
                runsB.append((rid, lines))
                keyB[rid] = ([(xi, fill)], lines, fired, cuts)
                rid += 1
        # interleaved multi-session runs
        keys = sorted(canons)
        if "ilv" in faults and len(keys) >= 2:
            for _ in range(P["n_multi"]):
                ns = rsc.choice((2, 2, 3))
                pick = [rsc.choice(keys) for _ in range(ns)]
                oplists, ins, firedT = [], {}, {k: 0 for k in sched.FAULT_KINDS}
                for sid, (xi, fill) in enumerate(pick):
                    x = xs[xi]
                    fs = set(rsc.sample(sorted(faults - {"ilv"}), min(3, len(faults - {"ilv"})))) | {"cut"}
                    o, fired = sched.scheduled_ops(rsc, len(x), caps, sched.random_cuts(rsc, len(x), hot=hot_offsets(canons[(xi, fill)])), fs, sid, fill)
                    oplists.append(o)
                    ins[sid] = x
                    for k in fired:
                        firedT[k] += fired[k]
                firedT["ilv"] += 1
                lines = sched.run_text(rid, ins, sched.interleave(rsc, oplists))
                runsB.append((rid, lines))
                keyB[rid] = (pick, lines, firedT, None)
                rid += 1
    outB = exec_runs(drv, runsB, scratch) if runsB else {}
    seen_sig = set()
    for r_id, (pick, lines, fired, cuts) in keyB.items():
        run, crash = outB.get(r_id, (None, ("harness", "missing", "")))
        stats["scheduled_runs"] += 1
        ins = {sid: xs[xi] for sid, (xi, fill) in enumerate(pick)}
        ctx = _ctx(unit, comp, ins, lines)
        for k in fired:
            stats["fired"][k] += fired[k]
        if crash is not None:
            stats["crashes"] += 1
            _add_crash(res, crash, ctx, "scheduled")
            if crash[0] != "harness" and "L2" in want:
                # the one-byte schedule of the same input(s) ran to completion: dying under another schedule
                # (moved buffer, relocated struct, other sessions in between, different cuts) is an outcome that
                # depends on the schedule
                _add(res, oracles.V("L2", "schedule-dies-where-canonical-completes", -1, 0, crash[1]), ctx, "scheduled")
            continue
        _account(stats, run)
        oplines = [l for l in lines if l.startswith("OP ")]
        ops = {i: oracles.parse_op(l) for i, l in enumerate(oplines)}
        for f in oracles.run_findings(run):
            annotate_full(f, meta)
            _add(res, f, ctx, "scheduled")
        for sid, (xi, fill) in enumerate(pick):
            calls = run.session(sid)
            stats["sessions"] += 1
            cn = canons[(xi, fill)]
            if "L2" in want:
                ff, pr = oracles.fold_check(cn, calls, ops, flags)
                for f in ff:
                    _add(res, f, ctx, "scheduled")
                cut_states |= pr.pop("cuts_on_states")
                _merge_probes(stats, pr)
            lf, pr = oracles.law_check(calls, ops, flags)
            for f in lf:
                annotate_stall(f, calls, meta, xs[xi])
                _add(res, f, ctx, "scheduled")
            _merge_probes(stats, pr)
            for f in oracles.end_law_check(calls, {a[0] for a in run.aborts}):
                _add(res, f, ctx, "scheduled")
            # non-triviality: canonical trace consumed >= 2 bytes and has an event or a terminal code,
            # and the script put at least one fault inside the consumed region
            consumed = cn.consumed_before_terminal()
            consumed = len(xs[xi]) if consumed is None else consumed
            has_ev = any(s.events for s in cn.steps) or cn.terminal_at is not None
            inner = [c for c in (cuts or []) if 0 < c < max(consumed, 1)]
            nontrivial_faults = len(inner) + sum(v for k, v in fired.items() if k != "cut")
            if consumed >= 2 and has_ev and nontrivial_faults >= 1:
                sig = sha("%s|%s|%s|%s" % (res["src_sha"], " ".join(unit["argv"]), xs[xi].hex(), "\n".join(oplines)))
                stats["nontrivial"].append(sig)
        if len(res["samples"]) < 4 and len(pick) >= 1:
            res["samples"].append({"kind": "scheduled", "inputs": {str(k): v.hex() for k, v in ins.items()},
                                   "script": oplines[:14], "trace": [c.brief() for c in run.calls[:10]]})
    stats["states_cut"] = len(cut_states)
    stats["states_seen"] = len(all_states)
    stats["guards_total"] = LAST_COV[0]
    stats["guards_hit"] = LAST_COV[1]
    stats["bytes_fed"] = sum(len(x) for x in xs) * (1 + len(keyB) // max(1, len(xs)))


def _account(stats, run):
    for c in run.calls:
        stats["api_calls"] += 1
        stats["ticks"] += c.ticks
    for a in run.aborts:
        if a[2] == "SPIN":
            stats["spin"] += 1
        if a[2] in ("SLOW", "YSLOW"):
            stats["slow"] += 1


def _merge_probes(stats, pr):
    for k, v in pr.items():
        if isinstance(v, int):
            stats[k] = stats.get(k, 0) + v


def annotate_stall(f, calls, meta, data):
    """
    For 'OK before the chunk end' findings: is the machine resting in a state that has no
    transition (and no else) for the byte in flight?  (call-site identification of the recorded
    C10 finding: non-total machine state)
    """
    if f["oracle"] != "P1" or "before-chunk-end" not in f["kind"] or not meta.get("dfa"):
        return
    c = None
    for x in calls:
        if x.op == f["op"] and x.cls() == "OK" and x.kind in ("FEED", "REFEED", "REFEED1"):
            c = x
    if c is None or c.pos < 0 or c.pos >= len(data):
        return
    states = meta["dfa"]["states"]
    if c.state >= len(states):
        return
    st = states[c.state]
    b = data[c.pos]
    if st["cp"]:
        return
    hit = any((b in t["on"]) or ("L" in t["on"]) for t in st["tr"])
    if not hit:
        f["detail"] += " stall=nontotal-state(%d has no transition for byte %02x and no else)" % (c.state, b)


def annotate_full(f, meta):
    """For liveness findings: which strings were at capacity when the call stopped making progress."""
    if f["oracle"] not in ("P7", "P5") or "snap=" not in f["detail"]:
        return
    snap = f["detail"].split("snap=", 1)[1].strip()
    caps = {}
    for o in meta["outputs"]:
        if o["type"] == "STR":
            caps[o["name"]] = o["str_size"] - 1 if o["str_null"] else o["str_size"]
    full = []
    for item in snap.split(";"):
        if "=" in item and ":" in item:
            n, v = item.split("=", 1)
            try:
                cnt = int(v.split(":", 1)[0])
            except ValueError:
                continue
            if n in caps and cnt >= caps[n]:
                full.append(n)
    f["detail"] = f["detail"].split(" snap=")[0] + " full=%s snap=%s" % (",".join(full) or "-", snap)


def _add(res, f, ctx, phase):
    g = dict(f)
    g["phase"] = phase
    g["ctx"] = ctx
    res["findings"].append(g)


def _add_crash(res, crash, ctx, phase):
    where, summary, tail = crash
    if where == "generated":
        f = oracles.V("M5", "sanitizer-report-in-generated-code", -1, 0, summary)
    elif where == "harness":
        f = oracles.V("HARNESS", "driver-or-shim-crash", -1, 0, summary)
    else:
        f = oracles.V("M5U", "sanitizer-report-unattributed", -1, 0, summary)
    f["stderr_tail"] = tail[-1500:]
    _add(res, f, ctx, phase)


# ------------------------------------------------------------------ single-script evaluation (replay / minimisation)

def evaluate_script(unit, comp, drv, scratch, ins, lines, fill=0, want=("L2", "LAWS")):
    """
    Run the canonical pass for every session input and then the given script; apply all
    oracles.  Returns (findings, crashed).  Consults no PRNG.
    """
    meta = comp["meta"]
    flags = meta["flags"]
    caps = sched.Caps(flags)
    res = {"findings": []}
    runs = []
    sids = sorted(ins)
    for k, sid in enumerate(sids):
        runs.append((k, sched.run_text(k, {0: ins[sid]}, sched.canonical_ops(len(ins[sid]), caps, fill))))
    body = [l for l in lines if l.startswith("OP ")]
    runs.append((1000, sched.run_text(1000, ins, body)))
    out = exec_runs(drv, runs, scratch)
    canons = {}
    for k, sid in enumerate(sids):
        run, crash = out.get(k, (None, ("harness", "missing", "")))
        ctx = _ctx(unit, comp, {0: ins[sid]}, runs[k][1])
        if crash is not None:
            _add_crash(res, crash, ctx, "canonical")
            continue
        ops = {i: oracles.parse_op(l) for i, l in enumerate([l for l in runs[k][1] if l.startswith("OP ")])}
        for f in oracles.run_findings(run):
            annotate_full(f, meta)
            _add(res, f, ctx, "canonical")
        cn = oracles.Canon(run, len(ins[sid]), caps.indirect, caps.has_end)
        lf, _ = oracles.law_check(run.session(0), ops, flags, True)
        for f in cn.findings + lf + oracles.end_law_check(run.session(0), {a[0] for a in run.aborts}):
            annotate_stall(f, run.session(0), meta, ins[sid])
            _add(res, f, ctx, "canonical")
        if cn.ok:
            canons[sid] = cn
            if unit.get("family") and fill == 0:
                from . import families
                for f in families.check_canon(unit["family"], ins[sid], cn, flags):
                    _add(res, f, ctx, "canonical-model")
    run, crash = out.get(1000, (None, ("harness", "missing", "")))
    ctx = _ctx(unit, comp, ins, lines)
    if crash is not None:
        _add_crash(res, crash, ctx, "scheduled")
        return res["findings"], True
    oplines = [l for l in body if l.startswith("OP ")]
    ops = {i: oracles.parse_op(l) for i, l in enumerate(oplines)}
    for f in oracles.run_findings(run):
        annotate_full(f, meta)
        _add(res, f, ctx, "scheduled")
    for sid in sids:
        calls = run.session(sid)
        if sid in canons and "L2" in want:
            ff, _ = oracles.fold_check(canons[sid], calls, ops, flags)
            for f in ff:
                _add(res, f, ctx, "scheduled")
        lf, _ = oracles.law_check(calls, ops, flags)
        for f in lf + oracles.end_law_check(calls, {a[0] for a in run.aborts}):
            annotate_stall(f, calls, meta, ins[sid])
            _add(res, f, ctx, "scheduled")
    return res["findings"], False
