"""
Input generation.  Workload guidance only: the compiled DFA summary decides
which inputs are *tried*, never what the right answer is.
"""


class Walker:
    def __init__(self, dfa):
        self.dfa = dfa
        self.states = dfa["states"]
        self._cand = {}

    def _closure(self, s):
        """states reachable from s through non-consuming moves (fallthrough / condition)."""
        seen = {s}
        stack = [s]
        while stack:
            x = stack.pop()
            if x < 0 or x >= len(self.states):
                continue
            for t in self.states[x]["tr"]:
                if (t["fall"] or t["cond"]) and t["to"] >= 0 and t["to"] not in seen:
                    seen.add(t["to"])
                    stack.append(t["to"])
        return seen

    def candidates(self, s):
        """bytes that some transition near s names explicitly, and bytes next to them."""
        if s in self._cand:
            return self._cand[s]
        vals = set()
        has_else = False
        for x in self._closure(s):
            if x < 0 or x >= len(self.states):
                continue
            for t in self.states[x]["tr"]:
                for v in t["on"]:
                    if isinstance(v, int):
                        vals.add(v)
                    elif v == "L":
                        has_else = True
        c = (sorted(vals), has_else)
        self._cand[s] = c
        return c

    def step(self, s, b, rng):
        """rough successor of state s on byte b (action overrides are ignored)."""
        for _ in range(64):
            if s < 0 or s >= len(self.states):
                return self.dfa["start"]
            st = self.states[s]
            if st["cp"]:
                if not st["tr"]:
                    return s
                t = rng.choice(st["tr"])
                s = t["to"]
                continue
            hit = None
            els = None
            for t in st["tr"]:
                if b in t["on"]:
                    hit = t
                    break
                if "L" in t["on"]:
                    els = t
            t = hit or els
            if t is None:
                return -1
            if t["to"] < 0:
                return -1
            if t["fall"]:
                s = t["to"]
                continue
            return t["to"]
        return s

    def walk(self, rng, length, p_on=0.7, p_near=0.15):
        s = self.dfa["start"]
        out = bytearray()
        allvals = sorted({v for st in self.states for t in st["tr"] for v in t["on"] if isinstance(v, int)}) or [97]
        for _ in range(length):
            vals, has_else = self.candidates(s) if s >= 0 else ([], False)
            r = rng.random()
            if vals and r < p_on:
                b = rng.choice(vals)
            elif r < p_on + p_near:
                b = rng.choice(allvals)
            else:
                b = rng.choice((0, 255, 10, 13, 32, rng.randrange(256), rng.randrange(32, 127)))
            out.append(b)
            if s >= 0:
                s = self.step(s, b, rng)
            if s < 0:
                # the rough walk thinks the machine failed: mostly stop here (post-FAIL bytes are
                # still interesting, so sometimes continue from the start state)
                if rng.random() < 0.6:
                    for _ in range(rng.randrange(0, 4)):
                        out.append(rng.choice(allvals))
                    break
                s = self.dfa["start"]
        return bytes(out)


    # ------------------------------------------------------------ state cover
    # The numbering of the compiled machine's states depends on the compiler's hash seed and address layout; the
    # cover inputs must not.  Everything below therefore works on a canonical order of states and transitions that
    # is derived from the structure alone (Weisfeiler-Lehman style refinement of structural hashes, then a BFS from
    # the start state along canonically sorted transitions).
    def _canon(self):
        if getattr(self, "_corder", None) is not None:
            return
        import hashlib
        hs = lambda x: hashlib.sha1(repr(x).encode()).hexdigest()[:16]
        tkey = lambda t: (tuple(str(v) for v in t["on"]), t["fall"], t["cond"], t.get("err", False), tuple(t.get("acts", ())))
        n = len(self.states)
        acc = set(self.dfa.get("accepting", ()))
        H = [hs((st["cp"], i in acc, i == self.dfa.get("fail", -1), sorted(tkey(t) for t in st["tr"]))) for i, st in enumerate(self.states)]
        for _ in range(16):
            H = [hs((H[i], sorted((tkey(t), H[t["to"]] if 0 <= t["to"] < n else "-") for t in st["tr"]))) for i, st in enumerate(self.states)]
        self._ctr = [sorted(st["tr"], key=lambda t: (tkey(t), H[t["to"]] if 0 <= t["to"] < n else "-")) for st in self.states]
        order, seen = [], set()
        queue = [self.dfa["start"]] if 0 <= self.dfa["start"] < n else []
        seen.update(queue)
        while queue:
            x = queue.pop(0)
            order.append(x)
            for t in self._ctr[x]:
                y = t["to"]
                if 0 <= y < n and y not in seen:
                    seen.add(y)
                    queue.append(y)
        order += sorted((i for i in range(n) if i not in seen), key=lambda i: H[i])
        self._corder = {s_: k for k, s_ in enumerate(order)}

    def _csort(self, states):
        self._canon()
        return sorted(states, key=lambda x: self._corder.get(x, 1 << 30))

    def _reps(self, t, rng):
        vals = [v for v in t["on"] if isinstance(v, int)]
        if not vals:
            return []
        out = {vals[0], vals[-1]}
        if len(vals) > 2:
            out.add(rng.choice(vals))
        return sorted(out)

    def _else_byte(self, s, rng):
        """a byte no transition near s names explicitly (takes the else edge, or is a mismatch)."""
        vals, _ = self.candidates(s)
        named = set(vals)
        free = [b for b in (0, 255, 10, 32, 33, 126, 127, 128, 1) + tuple(range(35, 123)) if b not in named]
        if not free:
            free = [b for b in range(256) if b not in named]
        return rng.choice(free[:12]) if free else None

    def _succ_all(self, s, b):
        """all rough successors of s on byte b, exploring every branch of condition points."""
        self._canon()
        out = set()
        stack = [(s, 0)]
        seen = set()
        while stack:
            x, d = stack.pop()
            if d > 48 or x < 0 or x >= len(self.states) or (x, d > 0) in seen:
                continue
            seen.add((x, d > 0))
            st = self.states[x]
            if st["cp"]:
                for t in self._ctr[x]:
                    stack.append((t["to"], d + 1))
                continue
            hit = None
            els = None
            for t in self._ctr[x]:
                if b in t["on"]:
                    hit = t
                    break
                if "L" in t["on"]:
                    els = t
            t = hit or els
            if t is None or t["to"] < 0:
                continue
            if t["fall"]:
                stack.append((t["to"], d + 1))
            else:
                out.add(t["to"])
        return out

    def shortest_paths(self, rng, limit=4096):
        """state -> one shortest byte string that (roughly) drives the machine into it."""
        self._canon()
        start = self.dfa["start"]
        paths = {start: b""}
        frontier = [start]
        while frontier and len(paths) < limit:
            nxt = []
            for s in frontier:
                cl = [x for x in self._csort(self._closure(s)) if 0 <= x < len(self.states)]
                bs = []
                for x in cl:
                    for t in self._ctr[x]:
                        bs.extend(self._reps(t, rng))
                eb = self._else_byte(s, rng)
                if eb is not None:
                    bs.append(eb)
                seen_b = set()
                for b in bs:
                    if b in seen_b:
                        continue
                    seen_b.add(b)
                    for t2 in self._csort(self._succ_all(s, b)):
                        if t2 not in paths:
                            paths[t2] = paths[s] + bytes([b])
                            nxt.append(t2)
            frontier = nxt
        return paths

    def cover(self, rng, count, maxlen, avoid=()):
        """
        inputs aimed at (machine state, byte) pairs: a shortest path into a target state, then one byte
        per kind of move the state has (a named byte, a byte only another state names, an else /
        mismatch byte, 0xFF), then a short guided continuation.  EOF at the state is covered by the
        forked end() of the canonical pass.
        """
        paths = self.shortest_paths(rng)
        fail = self.dfa.get("fail", -1)
        targets = [s for s in self._csort(paths) if s != fail and len(paths[s]) < maxlen - 1]
        if not targets:
            return []
        rng.shuffle(targets)
        # states no earlier input rested in come first (coverage feedback), the others keep their shuffled order
        avoid = set(avoid)
        targets = [s for s in targets if s not in avoid] + [s for s in targets if s in avoid]
        allvals = sorted({v for st in self.states for t in st["tr"] for v in t["on"] if isinstance(v, int)}) or [97]
        res = []
        for s in targets:
            if len(res) >= count:
                break
            vals, _ = self.candidates(s)
            kind = rng.randrange(4)
            # bytes that make the state move without consuming (fall-through edges: else clauses, handlers, loop back
            # edges) are where non-consuming cycles and end-of-input hand-overs live: half of the draws go there
            fallvals = [v for t in self._ctr[s] if t["fall"] for v in t["on"] if isinstance(v, int)]
            fall_else = any(t["fall"] and "L" in t["on"] for t in self._ctr[s])
            if (fallvals or fall_else) and rng.random() < 0.5:
                b = rng.choice(sorted(set(fallvals))) if fallvals and (not fall_else or rng.random() < 0.5) else self._else_byte(s, rng)
                if b is None:
                    b = rng.choice(allvals)
            elif kind == 0 and vals:
                b = rng.choice(vals)
            elif kind == 1:
                b = rng.choice(allvals)
            elif kind == 2:
                b = 255
            else:
                b = self._else_byte(s, rng)
                if b is None:
                    b = rng.choice(allvals)
            x = bytearray(paths[s])
            x.append(b)
            cur = next(iter(self._csort(self._succ_all(s, b))), -1)
            for _ in range(rng.randrange(0, 4)):
                if cur < 0 or len(x) >= maxlen:
                    break
                v2, _ = self.candidates(cur)
                b2 = rng.choice(v2) if v2 and rng.random() < 0.8 else rng.choice(allvals)
                x.append(b2)
                cur = next(iter(self._csort(self._succ_all(cur, b2))), -1)
            res.append(bytes(x[:maxlen]))
        return res


def cover_inputs(rng, dfa, count, maxlen, avoid=()):
    if count <= 0:
        return []
    return Walker(dfa).cover(rng, count, maxlen, avoid)


def resting_states(dfa):
    """states the machine can be saved in between two bytes: the start state and every target of a consuming transition"""
    rest = {dfa["start"]}
    for st in dfa["states"]:
        for t in st["tr"]:
            if not t["fall"] and not t["cond"] and t["to"] >= 0 and "E" not in t["on"][:1]:
                rest.add(t["to"])
    rest.discard(dfa.get("fail", -1))
    return rest


def mutate(rng, data, allvals=None):
    data = bytearray(data)
    k = rng.randrange(6)
    if not data:
        return bytes([rng.randrange(256)])
    if k == 0:
        i = rng.randrange(len(data))
        data[i] = rng.randrange(256)
    elif k == 1:
        i = rng.randrange(len(data))
        del data[i]
    elif k == 2:
        i = rng.randrange(len(data) + 1)
        data.insert(i, rng.choice(list(data)))
    elif k == 3:
        data = data[:rng.randrange(len(data) + 1)]
    elif k == 4:
        i = rng.randrange(len(data))
        j = rng.randrange(i, len(data))
        data = data + data[i:j + 1]
    else:
        i = rng.randrange(len(data))
        data[i] = data[i] ^ 0x20
    return bytes(data)


def corpus_strings(source):
    """'// ok:', '// bad:', '// finish-X:' strings of a corpus test file."""
    out = []
    for line in source.splitlines():
        for pre in ("// ok: ", "// bad: "):
            if line.startswith(pre):
                out.append(line[len(pre):].encode("latin-1", "replace"))
        if line.startswith("// finish-"):
            rest = line[len("// finish-"):]
            if ": " in rest:
                out.append(rest[rest.index(" ") + 1:].encode("latin-1", "replace"))
    return out


def make_inputs(rng, dfa, count, maxlen, seeds=()):
    w = Walker(dfa)
    res = []
    seen = set()
    seeds = list(seeds)
    tries = 0
    while len(res) < count and tries < count * 20:
        tries += 1
        r = rng.random()
        if seeds and r < 0.35:
            x = rng.choice(seeds)
            for _ in range(rng.choice((0, 0, 1, 1, 2))):
                x = mutate(rng, x)
            if rng.random() < 0.3:
                x = x + rng.choice(seeds)
        else:
            ln = rng.choice((1, 2, 3, 5, 8, 12, 20, maxlen // 2, maxlen))
            x = w.walk(rng, max(1, min(ln, maxlen)), p_on=rng.choice((0.6, 0.8, 0.95)))
        x = x[:maxlen]
        if x in seen:
            continue
        seen.add(x)
        res.append(x)
    return res
