"""
Compilation worker: runs the *real* nmfu pipeline of the tree under test.

Used in two ways
  * imported by the harness, which calls compile_in_fork(): the compilation runs
    in a fork()ed child of a parent that has imported nmfu but never compiled
    anything, so no compilation can influence another (class-level registries
    in nmfu survive from one compilation to the next in the same process);
  * executed as a script in a *fresh interpreter* (C20): reads a JSON job from
    stdin, executes a history script (prior compilations, gc modes, junk
    allocations) and then the target compilation; prints a JSON result.

Nothing in here decides what the right answer is; it only extracts the emitted
text and the metadata the shim generator / workload generators need.
"""
import importlib.util
import io
import json
import os
import signal
import sys
import contextlib

_NMFU = None
_NMFU_PATH = None


def load_nmfu(tree="/repo"):
    """Import nmfu.py from the tree under test (never from site-packages)."""
    global _NMFU, _NMFU_PATH
    path = os.path.join(tree, "nmfu.py")
    if _NMFU is not None and _NMFU_PATH == path:
        return _NMFU
    spec = importlib.util.spec_from_file_location("nmfu_under_test", path)
    mod = importlib.util.module_from_spec(spec)
    sys.modules["nmfu_under_test"] = mod
    spec.loader.exec_module(mod)
    _NMFU, _NMFU_PATH = mod, path
    return mod


def _sym(nm, v):
    if v is nm.DFTransition.Else:
        return "L"
    if v is nm.DFTransition.End:
        return "E"
    if isinstance(v, str) and len(v) == 1:
        return ord(v)
    if isinstance(v, int):
        return v
    return "?"


def _dfa_summary(nm, dctx):
    dfa = dctx.dfa
    idx = {id(s): i for i, s in enumerate(dfa.states)}
    states = []
    n_yield = 0
    n_fall = 0
    for s in dfa.states:
        trs = []
        for t in s.transitions:
            acts = []
            for a in t.actions:
                try:
                    subs = [a] + list(a.all_subactions())
                except Exception:
                    subs = [a]
                for sa in subs:
                    acts.append(type(sa).__name__)
                    if isinstance(sa, nm.CustomYieldAction):
                        n_yield += 1
            on = sorted((_sym(nm, v) for v in t.on_values), key=lambda z: (isinstance(z, str), z))
            if t.is_fallthrough:
                n_fall += 1
            trs.append({
                "on": on,
                "to": idx.get(id(t.target), -1),
                "fall": bool(t.is_fallthrough),
                "err": bool(t.error_handling),
                "cond": isinstance(t, nm.DFConditionalTransition),
                "acts": acts,
            })
        states.append({"cp": isinstance(s, nm.DFConditionPoint), "tr": trs})
    return {
        "states": states,
        "start": idx.get(id(dfa.starting_state), 0),
        "accepting": sorted(idx[id(s)] for s in dfa.accepting_states if id(s) in idx),
        "fail": idx.get(id(dctx.generic_fail_state), -1),
        "n_yield_actions": n_yield,
        "n_fallthrough": n_fall,
    }


def _outputs(nm, pctx):
    outs = []
    for o in pctx.state_object_spec.values():
        d = {
            "name": o.name,
            "type": o.type.name,
            "str_size": o.str_size,
            "str_null": bool(o.str_null),
            "int_signed": bool(o.int_signed),
            "int_width": o.int_width,
            "raw": o.raw_underlying,
            "enum_values": list(o.enum_values),
            "has_default": o.default_value is not None,
        }
        outs.append(d)
    return outs


class _Timeout(Exception):
    pass


def _alarm(signum, frame):
    raise _Timeout()


def do_compile(nm, source, argv, name="p", want_dfa=True, time_limit=120):
    """One compilation through the same entry points main() and the tests use."""
    res = {"verdict": None, "error": None, "c": None, "h": None, "meta": None}
    old = signal.signal(signal.SIGALRM, _alarm)
    signal.alarm(time_limit)
    sink = io.StringIO()
    try:
        with contextlib.redirect_stdout(sink):
            try:
                nm.ProgramData.load_commandline_flags((*argv, name + ".nmfu"))
            except RuntimeError as e:
                res["verdict"] = "flags-error"
                res["error"] = str(e)
                return res
            except SystemExit:
                res["verdict"] = "flags-exit"
                return res
            nm.ProgramData.load_source(source)
            try:
                pt = nm.parser.parse(source, start="start")
            except nm.lark.LarkError as e:
                res["verdict"] = "syntax"
                res["error"] = str(e)[:300]
                return res
            try:
                pctx = nm.ParseCtx(pt)
                pctx.parse()
                dctx = nm.DfaCompileCtx(pctx)
                dctx.compile()
                cctx = nm.CodegenCtx(dctx, name)
                h = cctx.generate_header()
                c = cctx.generate_source()
            except nm.NMFUError as e:
                res["verdict"] = "rejected:" + type(e).__name__
                try:
                    res["error"] = str(e)[:500]
                except Exception as e2:  # message rendering itself failed
                    res["error"] = "unrenderable:" + type(e2).__name__
                return res
            res["verdict"] = "accepted"
            res["c"] = c
            res["h"] = h
            flags = {f.name: bool(nm.ProgramData.do(f)) for f in nm.ProgramFlag}
            opts = {o.name: nm.ProgramData.option(o) for o in nm.ProgramOption}
            meta = {
                "name": name,
                "outputs": _outputs(nm, pctx),
                "hooks": list(cctx.hooks),
                "finish_codes": list(cctx.finish_codes),
                "yield_codes": list(cctx.yield_codes),
                "flags": flags,
                "options": {k: (v if isinstance(v, (int, str)) else str(v)) for k, v in opts.items()},
                "n_states": len(dctx.dfa.states),
            }
            if want_dfa:
                meta["dfa"] = _dfa_summary(nm, dctx)
            res["meta"] = meta
            return res
    except _Timeout:
        res["verdict"] = "timeout"
        return res
    except RecursionError:
        res["verdict"] = "internal:RecursionError"
        return res
    except Exception as e:  # internal compiler error: reported, never hidden
        res["verdict"] = "internal:" + type(e).__name__
        res["error"] = repr(e)[:300]
        return res
    finally:
        signal.alarm(0)
        signal.signal(signal.SIGALRM, old)


def compile_in_fork(source, argv, tree="/repo", name="p", want_dfa=True, time_limit=120):
    """Compile in a fork()ed child of this (pristine) process; result via pipe."""
    nm = load_nmfu(tree)
    r, w = os.pipe()
    pid = os.fork()
    if pid == 0:
        code = 0
        try:
            os.close(r)
            sys.setrecursionlimit(10000)
            out = do_compile(nm, source, argv, name, want_dfa, time_limit)
            data = json.dumps(out).encode()
            with os.fdopen(w, "wb") as f:
                f.write(data)
        except BaseException:
            code = 3
        finally:
            os._exit(code)
    os.close(w)
    chunks = []
    with os.fdopen(r, "rb") as f:
        while True:
            b = f.read(1 << 16)
            if not b:
                break
            chunks.append(b)
    _, status = os.waitpid(pid, 0)
    data = b"".join(chunks)
    if not data:
        return {"verdict": "internal:child-died", "error": "status %d" % status, "c": None, "h": None, "meta": None}
    return json.loads(data)


# ---------------------------------------------------------------- C20 history runner

def run_history(job):
    """
    job = {"tree":..., "history":[step...], "target":{"source","argv"}}
    step kinds:
      {"k":"compile","source":..,"argv":[..]}      compile something else first (result ignored)
      {"k":"junk","n":int,"keep":bool}             allocate n small objects (shifts id()s)
      {"k":"gc","mode":"disable"|"enable"|"collect"|"threshold1"|"freeze"}
      {"k":"recursion","limit":int}
    """
    import gc
    nm = load_nmfu(job.get("tree", "/repo"))
    sys.setrecursionlimit(10000)
    keep = []
    log = []
    for st in job.get("history", []):
        k = st["k"]
        if k == "compile":
            r = do_compile(nm, st["source"], st["argv"], st.get("name", "p"), want_dfa=False)
            log.append(r["verdict"])
        elif k == "junk":
            objs = [object() for _ in range(st["n"])]
            objs2 = [[i] for i in range(st["n"] // 3)]
            if st.get("keep"):
                keep.append(objs[::2])
                keep.append(objs2)
            log.append("junk")
        elif k == "gc":
            m = st["mode"]
            if m == "disable":
                gc.disable()
            elif m == "enable":
                gc.enable()
            elif m == "collect":
                gc.collect()
            elif m == "threshold1":
                gc.set_threshold(1, 1, 1)
            elif m == "freeze":
                gc.freeze()
            log.append("gc:" + m)
    t = job["target"]
    out = do_compile(nm, t["source"], t["argv"], t.get("name", "p"), want_dfa=job.get("want_dfa", False))
    out["history_log"] = log
    return out


if __name__ == "__main__":
    job = json.load(sys.stdin)
    out = run_history(job)
    sys.stdout.write(json.dumps(out))
