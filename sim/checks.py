"""
Check runner: profiles per property, worker pool, findings triage (known
findings / new violations), minimisation, replay files, evidence.
"""
import faulthandler
import json
import multiprocessing as mp
import os
import re
import shutil
import sys
import tempfile
import time
import traceback
from concurrent.futures import ProcessPoolExecutor

from . import engine, sched, workload, nmfu_child, cbuild, oracles

VERIF = os.path.dirname(os.path.dirname(os.path.abspath(__file__)))
# NMFU_VERIF_OUT redirects evidence and replay files (used when a check is pointed at a scratch tree:
# what it finds there says nothing about /repo and must not overwrite /verif/evidence)
_OUT = os.environ.get("NMFU_VERIF_OUT") or VERIF
EVID = os.path.join(_OUT, "evidence")
REPLAYS = os.path.join(_OUT, "replays")
KNOWN = os.path.join(VERIF, "known_findings.json")

COMPONENTS = {
    "real": ["nmfu.py lexer/parser/AST/DFA/optimiser/codegen of the tree under test (imported from <tree>/nmfu.py, forked per compilation)",
             "lark 1.3.1", "generated <p>.c/<p>.h compiled by clang 14 with ASan+UBSan+trace-pc-guard", "libc/ASan allocator"],
    "simulated": ["the caller (seeded scheduler issuing start/feed/end/free)", "the byte stream (in-memory, seeded fragmentation, exact-size heap chunks)",
                  "wall clock (replaced by ticks = basic-block edges of the generated C)"],
    "stub": ["hook functions (recorders of name, inval, absolute offset, output snapshot)"],
}

# which oracles decide which property
OWNS = {
    "C02": {"L2", "L2E"},   # (family units in the C02 workload contribute schedules; their model findings belong to C10)
    "C03": {"M1", "M2", "M3", "M4", "M4D", "M4F", "M4L", "M5", "M5U", "F1M", "F6", "F8", "F9"},
    "C04": {"P7", "P5"},
    "C10": {"P1", "P2", "P2Z", "P3", "P4", "P5", "P6", "P8", "F1", "F2", "F5", "F8", "SD"},
    "C12": {"L4"},
    "C17": {"L2E", "P8", "F3", "F4", "F1E", "P2E"},
    "C20": {"L4", "L4V"},
}


# ------------------------------------------------------------------ process set-up

def reexec_deterministic():
    """PYTHONHASHSEED=0 + ASLR off so that even the text of the generated C repeats."""
    if os.environ.get("NMFU_VERIF_REEXEC") == "1":
        return
    env = dict(os.environ)
    env["NMFU_VERIF_REEXEC"] = "1"
    env["PYTHONHASHSEED"] = "0"
    env["PYTHONDONTWRITEBYTECODE"] = "1"
    setarch = shutil.which("setarch")
    args = [sys.executable] + sys.argv
    if setarch:
        try:
            import subprocess
            if subprocess.run([setarch, "-R", "true"], capture_output=True).returncode == 0:
                env["NMFU_VERIF_ASLR"] = "off"
                os.execve(setarch, [setarch, "-R"] + args, env)
        except OSError:
            pass
    env["NMFU_VERIF_ASLR"] = "on"
    os.execve(sys.executable, args, env)


# ------------------------------------------------------------------ worker

_W = {}


def _winit(workdir, tree):
    _W["workdir"] = workdir
    _W["tree"] = tree
    faulthandler.enable()
    nmfu_child.load_nmfu(tree)
    cbuild.driver_object(workdir)


def _wrun(task):
    kind, root, uidx, unit, plan = task
    faulthandler.dump_traceback_later(900, exit=True)
    try:
        if kind == "sim":
            return engine.simulate_unit(unit, plan, root, uidx, _W["workdir"], _W["tree"])
        if kind == "call":
            fn = unit.pop("_fn")
            return fn(unit, plan, root, uidx, _W["workdir"], _W["tree"])
        raise ValueError(kind)
    except Exception as e:
        return {"label": unit.get("label", "?"), "argv": unit.get("argv", []), "status": "harness-error",
                "verdict": None, "findings": [oracles.V("HARNESS", "worker-exception", -1, 0, traceback.format_exc()[-1500:])],
                "stats": {}, "samples": [], "error": repr(e), "wall": 0}
    finally:
        faulthandler.cancel_dump_traceback_later()


def run_pool(tasks, workdir, tree, workers):
    ctx = mp.get_context("fork")
    # the driver object is built once, before forking, and shared
    cbuild.driver_object(workdir)
    with ProcessPoolExecutor(workers, mp_context=ctx, initializer=_winit, initargs=(workdir, tree)) as ex:
        return list(ex.map(_wrun, tasks, chunksize=1))


# ------------------------------------------------------------------ known findings

def load_known():
    try:
        return json.load(open(KNOWN))
    except (OSError, ValueError):
        return {"findings": [], "fixed": []}


def _block_after(src, i):
    """text of the {...} block starting at the first '{' at or after i, and the index after it"""
    j = src.find("{", i)
    if j < 0:
        return None, len(src)
    depth = 0
    k = j
    in_str = False
    while k < len(src):
        c = src[k]
        if in_str:
            if c == "\\":
                k += 1
            elif c == '"':
                in_str = False
        elif c == '"':
            in_str = True
        elif c == "{":
            depth += 1
        elif c == "}":
            depth -= 1
            if depth == 0:
                return src[j + 1:k], k + 1
        k += 1
    return None, len(src)


def yield_in_end_clause_inside_loop(f):
    """
    The recorded C04 end()-livelock: an `end -> { ... yield ... }` clause (the yield at the clause's top level or inside
    an action-only if) of a case that sits inside a loop, and the non-returning call is end() yielding again and again.
    """
    if not re.search(r"end-yields=", f.get("detail", "")):
        return False
    src = f.get("ctx", {}).get("source", "")
    for lp in re.finditer(r"\bloop\b", src):
        body, _ = _block_after(src, lp.end())
        if body is None:
            continue
        for m in re.finditer(r"\bend\s*->", body):
            clause, _ = _block_after(body, m.end())
            if clause is not None and re.search(r"\byield\b", clause):
                return True
    return False


PREDICATES = {"yield-in-end-clause-inside-loop": yield_in_end_clause_inside_loop}


def known_match(entry, prop, f):
    if entry.get("property") != prop:
        return False
    m = entry.get("match", {})
    if "predicate" in m and not PREDICATES[m["predicate"]](f):
        return False
    if "oracle" in m and f["oracle"] not in (m["oracle"] if isinstance(m["oracle"], list) else [m["oracle"]]):
        return False
    if "kind" in m and f["kind"] != m["kind"]:
        return False
    ctx = f.get("ctx", {})
    if "detail_re" in m and not re.search(m["detail_re"], f.get("detail", ""), re.S):
        return False
    if "source_re" in m and not re.search(m["source_re"], ctx.get("source", ""), re.S):
        return False
    for a in m.get("argv_has", []):
        if a not in ctx.get("argv", []):
            return False
    for a in m.get("argv_lacks", []):
        if a in ctx.get("argv", []):
            return False
    if "script_re" in m and not re.search(m["script_re"], "\n".join(ctx.get("script", [])), re.S):
        return False
    return True


# ------------------------------------------------------------------ minimisation + replay

def _same(findings, oracle, kind):
    return [f for f in findings if f["oracle"] == oracle and f["kind"] == kind]


class Reproducer:
    def __init__(self, ctx, workdir, tree, canaries=None):
        self.ctx = ctx
        self.workdir = workdir
        self.tree = tree
        self.canaries = canaries
        self.tag = "rp%d_%d" % (os.getpid(), int(time.time() * 1000) % 1000000)
        self.comp = None
        self.drv = None

    def build(self, source=None, argv=None):
        self.close()
        source = self.ctx["source"] if source is None else source
        argv = self.ctx["argv"] if argv is None else argv
        comp = nmfu_child.compile_in_fork(source, argv, tree=self.tree)
        if comp["verdict"] != "accepted":
            return False
        try:
            self.drv = cbuild.build(comp, self.workdir, self.tag, canaries=self.canaries)
        except cbuild.BuildError:
            return False
        self.comp = comp
        return True

    def run(self, ins, lines, fill=0):
        unit = {"label": self.ctx.get("label", "replay"), "source": self.ctx["source"], "argv": self.ctx["argv"],
                "family": self.ctx.get("family")}
        scratch = os.path.join(self.workdir, self.tag)
        return engine.evaluate_script(unit, self.comp, self.drv, scratch, ins, lines, fill)

    def close(self):
        if self.drv:
            cbuild.cleanup(self.workdir, self.tag)
            self.drv = None


def _fill_of(lines):
    for l in lines:
        p = l.split()
        if len(p) >= 4 and p[0] == "OP" and p[2] == "START":
            return int(p[3])
    return 0


def minimise(f, workdir, tree, budget=60.0, canaries=None):
    """ddmin over the explicit op list; returns (ctx_min, reproduced_initially)."""
    t0 = time.time()
    ctx = dict(f["ctx"])
    oracle, kind = f["oracle"], f["kind"]
    ins = {int(k): bytes.fromhex(v) for k, v in ctx["inputs"].items()}
    body = [l for l in ctx["script"] if l.startswith("OP ")]
    fill = _fill_of(body)
    rp = Reproducer(ctx, workdir, tree, canaries)
    try:
        if not rp.build():
            return ctx, False

        # a finding of the canonical one-byte pass does not depend on the script at all: only the input is shortened and
        # the replay keeps the canonical script; a finding of a scheduled pass must come from the scheduled pass again
        canonical_phase = str(f.get("phase", "")).startswith(("canonical", "rescue"))

        def test(ins_, body_):
            if time.time() - t0 > budget:
                return False
            ff, _ = rp.run(ins_, body_, fill)
            same = _same(ff, oracle, kind)
            if not canonical_phase and any(x.get("phase") == "scheduled" for x in same):
                return True
            return bool(same) and (canonical_phase or not any(x.get("phase") == "scheduled" for x in _same(f0, oracle, kind)))

        def opts_and_source(ins, body):
            # 5. reset options to their defaults one by one (rebuild each time)
            argv = list(ctx["argv"])
            i = 0
            while i < len(argv) and time.time() - t0 < budget:
                a = argv[i]
                if a.startswith("-O") or a in ("-fyield-support", "-feof-support"):
                    i += 1
                    continue
                width = 2 if a.startswith("--") else 1
                cand = argv[:i] + argv[i + width:]
                rp2 = Reproducer(dict(ctx, argv=cand), workdir, tree, canaries)
                ok = False
                try:
                    if rp2.build():
                        ff, _ = rp2.run(ins, body, fill)
                        ok = bool(_same(ff, oracle, kind))
                finally:
                    rp2.close()
                if ok:
                    argv = cand
                else:
                    i += width
            ctx["argv"] = argv
            # 6. for generator-made programs (no reference model attached): drop source lines one at a time
            if not ctx.get("family") and str(ctx.get("label", "")).startswith("gen:"):
                lines = ctx["source"].split("\n")
                i = len(lines) - 1
                while i >= 0 and time.time() - t0 < budget:
                    ln = lines[i].strip()
                    simple = ln.endswith(";") and "{" not in ln and "}" not in ln and not ln.startswith(("yieldcode", "finishcode"))
                    if simple:
                        cand = "\n".join(lines[:i] + lines[i + 1:])
                        rp3 = Reproducer(dict(ctx, source=cand), workdir, tree, canaries)
                        ok = False
                        try:
                            if rp3.build():
                                ff, _ = rp3.run(ins, body, fill)
                                ok = bool(_same(ff, oracle, kind))
                        finally:
                            rp3.close()
                        if ok:
                            lines = lines[:i] + lines[i + 1:]
                    i -= 1
                ctx["source"] = "\n".join(lines)
            return ctx

        f0, _ = rp.run(ins, body, fill)
        if not test(ins, body):
            return ctx, False
        if canonical_phase and len(ins) == 1:
            (s0, x0), = ins.items()
            caps = sched.Caps(rp.comp["meta"]["flags"])
            canon_body = lambda x: [l for l in sched.canonical_ops(len(x), caps, fill, s0)]
            x = x0
            while len(x) > 1 and time.time() - t0 < budget and test({s0: x[:-1]}, canon_body(x[:-1])):
                x = x[:-1]
            while len(x) > 1 and time.time() - t0 < budget and test({s0: x[1:]}, canon_body(x[1:])):
                x = x[1:]
            ins = {s0: x}
            body = canon_body(x)
            ctx["inputs"] = {str(s0): x.hex()}
            ctx["script"] = sched.run_text(0, ins, body)
            ctx["minimised"] = "canonical-phase finding: input shortened, script is the canonical one-byte schedule"
            return opts_and_source(ins, body), True
        # 1. single session
        sid = f.get("sid", 0)
        if len(ins) > 1 and sid in ins:
            cand = [l for l in body if l.split()[1] == str(sid)]
            if test({sid: ins[sid]}, cand):
                ins, body = {sid: ins[sid]}, cand
        # 2. ddmin on ops (START of each session is kept)
        n = 2
        while len(body) > 2 and time.time() - t0 < budget:
            chunk = max(1, len(body) // n)
            removed = False
            i = 0
            while i < len(body):
                cand = body[:i] + body[i + chunk:]
                keep_start = all(any(l.split()[1] == str(s) and l.split()[2] == "START" for l in cand) for s in ins)
                if cand and keep_start and test(ins, cand):
                    body = cand
                    removed = True
                else:
                    i += chunk
            if not removed:
                if chunk == 1:
                    break
                n = min(len(body), n * 2)
        # 3. merge adjacent FEEDs of the same session
        changed = True
        while changed and time.time() - t0 < budget:
            changed = False
            for i in range(len(body) - 1):
                a, b = body[i].split(), body[i + 1].split()
                if a[2] == "FEED" and b[2] == "FEED" and a[1] == b[1] and a[4] == b[3]:
                    cand = body[:i] + ["OP %s FEED %s %s %s %s" % (a[1], a[3], b[4], a[5], a[6])] + body[i + 2:]
                    if test(ins, cand):
                        body = cand
                        changed = True
                        break
        # 4. truncate inputs to what the script still feeds
        for s in list(ins):
            hi = 0
            for l in body:
                p = l.split()
                if p[1] == str(s) and p[2] == "FEED":
                    hi = max(hi, int(p[4]))
            if hi < len(ins[s]):
                cand_ins = dict(ins)
                cand_ins[s] = ins[s][:hi]
                if test(cand_ins, body):
                    ins = cand_ins
        ctx["inputs"] = {str(k): v.hex() for k, v in ins.items()}
        ctx["script"] = sched.run_text(0, ins, body)
        opts_and_source(ins, body)
        return ctx, True
    finally:
        rp.close()


def write_replay(prop, f, ctx_min, root, reproduced, extra=None):
    os.makedirs(REPLAYS, exist_ok=True)
    sig = engine.sha("%s|%s|%s|%s|%s" % (prop, f["oracle"], f["kind"], ctx_min["source"], "\n".join(ctx_min["script"])))
    path = os.path.join(REPLAYS, "%s-%s-%s.json" % (prop, root, sig[:10]))
    doc = {
        "property": prop, "oracle": f["oracle"], "kind": f["kind"], "detail": f["detail"], "seed": root,
        "label": ctx_min.get("label"), "source": ctx_min["source"], "argv": ctx_min["argv"],
        "inputs": ctx_min["inputs"], "script": ctx_min["script"],
        "unminimised": {"argv": f["ctx"]["argv"], "inputs": f["ctx"]["inputs"], "script": f["ctx"]["script"]},
        "family": ctx_min.get("family"),
        "reproduced_in_fresh_build": reproduced,
        "build_flags": cbuild.GEN_FLAGS,
        "stderr_tail": f.get("stderr_tail"),
        "replay": "./check %s --replay %s" % (prop, os.path.relpath(path, VERIF)),
    }
    if extra:
        doc.update(extra)
    with open(path, "w") as fh:
        json.dump(doc, fh, indent=1)
    return path


def replay(prop, path, tree, workdir):
    """Re-executes a replay file against the current tree; exit 1 iff the same class reappears."""
    doc = json.load(open(path))
    doc["_path"] = path
    if doc.get("kind_of_replay") == "twin":
        from . import twins
        return twins.replay(prop, doc, tree, workdir)
    if doc.get("kind_of_replay") == "replicas":
        from . import replicas
        return replicas.replay(prop, doc, tree, workdir)
    ctx = {"label": doc.get("label"), "source": doc["source"], "argv": doc["argv"], "inputs": doc["inputs"], "script": doc["script"],
           "family": doc.get("family")}
    rp = Reproducer(ctx, workdir, tree, doc.get("canaries"))
    try:
        if not rp.build():
            print("replay: program no longer compiles/builds under this tree (verdict changed)")
            return 0
        ins = {int(k): bytes.fromhex(v) for k, v in doc["inputs"].items()}
        body = [l for l in doc["script"] if l.startswith("OP ")]
        ff, crashed = rp.run(ins, body, _fill_of(body))
        same = _same(ff, doc["oracle"], doc["kind"])
        for f in ff:
            print("replay finding: %s %s %s" % (f["oracle"], f["kind"], f["detail"][:300]))
        if same:
            print("VIOLATION property=%s replay=%s" % (prop, path))
            return 1
        print("replay: violation class %s/%s did not reappear" % (doc["oracle"], doc["kind"]))
        return 0
    finally:
        rp.close()


# ------------------------------------------------------------------ main loop of a simulation check

def aggregate(results):
    agg = {"units": len(results), "status": {}, "canonical_runs": 0, "scheduled_runs": 0, "sessions": 0, "api_calls": 0,
           "ticks": 0, "fired": {}, "crashes": 0, "eof_checked": 0, "post_terminal_calls": 0, "yield_reentries": 0,
           "calls_compared": 0, "states_total": 0, "states_cut": 0, "states_seen": 0, "fail_then_call": 0, "zero_len": 0,
           "end_after_fail": 0, "zero_after_fail": 0, "exhaustive_inputs": 0, "slow": 0, "spin": 0, "yields_seen": 0,
           "terminals": {}, "retail": 0, "canon_unusable": 0, "guards_total": 0, "guards_hit": 0, "model_checked": 0, "twins_compared": 0, "cover_inputs": 0, "states_rest_total": 0, "states_rest_seen": 0}
    nontrivial = set()
    for r in results:
        agg["status"][r["status"]] = agg["status"].get(r["status"], 0) + 1
        st = r.get("stats") or {}
        for k, v in st.items():
            if k == "fired":
                for kk, vv in v.items():
                    agg["fired"][kk] = agg["fired"].get(kk, 0) + vv
            elif k == "terminals":
                for kk, vv in v.items():
                    agg["terminals"][kk] = agg["terminals"].get(kk, 0) + vv
            elif k == "nontrivial":
                nontrivial.update(v)
            elif isinstance(v, int) and k in agg:
                agg[k] += v
    agg["distinct_nontrivial"] = len(nontrivial)
    return agg


def pick_samples(results, n=6):
    """a few actual cases, preferring scheduled runs that carry hook events / faults over trivial ones"""
    scored = []
    for r in results:
        for s in r.get("samples", []):
            txt = json.dumps(s, default=str)
            score = txt.count("(") + 3 * txt.count("REFEED") + 2 * txt.count("FORK_END") + 2 * txt.count("RELOCATE") + (5 if s.get("kind") != "canonical" else 0)
            scored.append((score, len(scored), dict(s, unit=r.get("label"), argv=r.get("argv"))))
        if len(scored) > 400:
            break
    scored.sort(key=lambda x: (-x[0], x[1]))
    return [x[2] for x in scored[:n]]


def finish_check(prop, tier, root, results, t0, tree, workdir, level_text, rule, extra_cov=None, min_simulated=10):
    """Triage findings, write replays/evidence, print the verdict lines, return the exit code."""
    own = OWNS[prop]
    known = load_known()
    agg = aggregate(results)
    mine, other, harness, slow = [], {}, [], 0
    for r in results:
        for f in r["findings"]:
            if f["oracle"] == "HARNESS":
                harness.append((r, f))
            elif f["oracle"] == "SLOW":
                slow += 1
            elif f["oracle"] in own:
                f["_canaries"] = r.get("canaries")
                mine.append(f)
            else:
                k = f["oracle"] + "/" + f["kind"]
                other[k] = other.get(k, 0) + 1
    known_hits = {}
    new = {}
    for f in mine:
        hit = None
        for e in known.get("findings", []):
            if known_match(e, prop, f):
                hit = e
                break
        if hit is not None:
            known_hits.setdefault(hit["id"], [hit, 0])[1] += 1
        else:
            new.setdefault((f["oracle"], f["kind"]), []).append(f)
    violations = []
    for (oracle, kind), fs in sorted(new.items()):
        fs.sort(key=lambda f: (len(f["ctx"]["script"]), len(f["ctx"]["source"])))
        f = fs[0]
        extra = {"canaries": f.get("_canaries"), "occurrences": len(fs)}
        if "twin_argv" in f["ctx"]:
            ctx_min, ok = f["ctx"], None
            extra.update({"kind_of_replay": "twin", "twin_argv": f["ctx"]["twin_argv"]})
        elif "replicas" in f["ctx"] or "envs" in f["ctx"]:
            # replica disagreements are replayed by re-running every recorded replica
            ctx_min, ok = f["ctx"], None
            extra.update({"kind_of_replay": "replicas", "replicas": f["ctx"].get("replicas"), "envs": f["ctx"].get("envs"),
                          "ref_script": f["ctx"].get("ref_script")})
        else:
            try:
                ctx_min, ok = minimise(f, workdir, tree, 60.0, f.get("_canaries"))
            except Exception:
                ctx_min, ok = f["ctx"], False
        path = write_replay(prop, f, ctx_min, root, ok, extra)
        violations.append({"oracle": oracle, "kind": kind, "count": len(fs), "replay": path, "detail": f["detail"][:500],
                           "label": f["ctx"].get("label"), "argv": ctx_min["argv"]})
    wall = time.time() - t0
    simulated = agg["status"].get("simulated", 0)
    cov = {
        "evaluations": agg["sessions"] + agg["canonical_runs"],
        "distinct_nontrivial": agg["distinct_nontrivial"],
        "rule": rule,
        "samples": pick_samples(results),
        "seed": root,
        "runs": agg["canonical_runs"] + agg["scheduled_runs"],
        "runs_per_hour": int((agg["canonical_runs"] + agg["scheduled_runs"]) / max(wall, 1e-3) * 3600),
        "units_per_hour": int(agg["units"] / max(wall, 1e-3) * 3600),
        "simulated_time": {"ticks": agg["ticks"], "api_calls": agg["api_calls"]},
        "faults_fired": agg["fired"],
        "probes": {k: agg[k] for k in ("eof_checked", "post_terminal_calls", "yield_reentries", "calls_compared", "fail_then_call",
                                       "zero_len", "end_after_fail", "zero_after_fail", "exhaustive_inputs", "yields_seen",
                                       "retail", "spin", "slow", "crashes", "canon_unusable", "cover_inputs")},
        "terminal_codes_seen": agg["terminals"],
        "machine_states": {"total": agg["states_total"], "visited": agg["states_seen"], "with_a_cut_on_them": agg["states_cut"],
                           "resting_total": agg["states_rest_total"], "resting_visited": agg["states_rest_seen"]},
        "generated_code_edges": {"total": agg["guards_total"], "executed": agg["guards_hit"]},
        "canonical_traces_checked_against_a_reference_model": agg["model_checked"],
        "strict_done_twins_compared": agg["twins_compared"],
        "units": agg["status"],
        "components": COMPONENTS,
        "findings_owned_by_other_properties": other,
        "known_findings_reproduced": {k: v[1] for k, v in known_hits.items()},
        "violations": violations,
        "aslr": os.environ.get("NMFU_VERIF_ASLR", "?"),
        "tree": tree,
    }
    if extra_cov:
        cov.update(extra_cov)
    ev = {"property_id": prop, "tier": tier, "seed": int(root), "level": "exploration", "coverage": cov,
          "assumptions": [
              "clang 14 -O0 with ASan/UBSan executes the generated C faithfully",
              "the one-byte-per-call schedule is the reference for every other schedule (self-relative oracle)",
              "sampled, not exhaustive: a clean batch is evidence, not proof",
              level_text],
          "wall_s": round(wall, 2), "violations": len(violations)}
    os.makedirs(EVID, exist_ok=True)
    with open(os.path.join(EVID, prop + ".json"), "w") as fh:
        json.dump(ev, fh, indent=1, default=str)
    for hid, (e, n) in sorted(known_hits.items()):
        print("KNOWN-FINDING: property=%s %s [%s, %d occurrences]" % (prop, e["what"], hid, n))
    for v in violations:
        print("violation: %s/%s x%d %s :: %s" % (v["oracle"], v["kind"], v["count"], v["label"], v["detail"][:300]))
        print("VIOLATION property=%s replay=%s" % (prop, v["replay"]))
    print("%s %s: units=%s runs=%d sessions=%d nontrivial=%d wall=%.1fs other=%s" % (
        prop, tier, agg["status"], cov["runs"], agg["sessions"], agg["distinct_nontrivial"], wall, other))
    if violations:
        return 1
    if harness:
        for r, f in harness[:5]:
            print("HARNESS-ERROR: %s %s %s" % (r["label"], f["kind"], f["detail"][:400]))
        return 2
    if simulated < min_simulated or agg["distinct_nontrivial"] < 2:
        print("INSUFFICIENT-COVERAGE: simulated=%d nontrivial=%d" % (simulated, agg["distinct_nontrivial"]))
        return 2
    return 0
