"""Parsing of driver traces into per-run, per-session call records."""
import re


class Call:
    __slots__ = ("op", "sid", "kind", "code", "pos", "ticks", "state", "snap", "events", "checks", "aborts", "leaks")

    def __init__(self, op, sid, kind, code, pos, ticks, state, snap):
        self.op, self.sid, self.kind, self.code, self.pos = op, sid, kind, code, pos
        self.ticks, self.state, self.snap = ticks, state, snap
        self.events = []   # [(hook, inval, pos, snap)]
        self.checks = []   # [msg]
        self.aborts = []
        self.leaks = []

    def cls(self):
        return code_class(self.code)

    def brief(self):
        ev = ",".join("%s(%d@%d)" % (e[0], e[1], e[2]) for e in self.events)
        return "%s#%d %s pos=%d [%s]" % (self.kind, self.op, self.code, self.pos, ev)


def code_class(code):
    if code == "OK":
        return "OK"
    if code == "FAIL":
        return "FAIL"
    if code == "DONE":
        return "DONE"
    if code.startswith("FINISH_"):
        return "FINISH"
    if code.startswith("YIELD_"):
        return "YIELD"
    if code == "-":
        return "NONE"
    return "UNKNOWN"


TERMINAL = ("FAIL", "DONE", "FINISH")


class Run:
    def __init__(self, rid):
        self.rid = rid
        self.calls = []      # all Call objects in order
        self.aborts = []     # (op, sid, kind, detail)
        self.warnings = []
        self.leaks = []
        self.checkfails = [] # (op, sid, n, msgs)
        self.complete = False

    def session(self, sid):
        return [c for c in self.calls if c.sid == sid]


def parse(text):
    """Returns (runs: {rid: Run}, order: [rid], cov: (guards, hit) | None)."""
    runs = {}
    order = []
    cov = None
    cur = None
    last_snap = {}
    pending_events = []
    for line in text.splitlines():
        if not line:
            continue
        t = line[0]
        if t == "R" and line[1] == " ":
            cur = Run(int(line[2:]))
            runs[cur.rid] = cur
            order.append(cur.rid)
            last_snap = {}
            pending_events = []
        elif cur is None:
            if t == "V":
                p = line.split()
                cov = (int(p[1]), int(p[2]))
            continue
        elif t == "H" or t == "h":
            p = line.split(" ", 6)
            op, sid, hook, inval, pos, snap = int(p[1]), int(p[2]), p[3], int(p[4]), int(p[5]), p[6]
            if t == "H":
                # real-session hook: the driver compresses against / updates the session's last snapshot
                if snap == "=":
                    snap = last_snap.get(sid, "-")
                else:
                    last_snap[sid] = snap
            pending_events.append((hook, inval, pos, snap))
        elif t == "C":
            p = line.split(" ", 8)
            op, sid, kind, code, pos, ticks, state, snap = int(p[1]), int(p[2]), p[3], p[4], int(p[5]), int(p[6]), int(p[7]), p[8]
            c = Call(op, sid, kind, code, pos, ticks, state, None)
            is_clone = kind in ("FEND", "FENDC")
            c.events.extend(pending_events)
            pending_events = []
            if snap == "=":
                snap = last_snap.get(sid, "-")
            elif not is_clone:
                last_snap[sid] = snap
            c.snap = snap
            cur.calls.append(c)
        elif t == "K":
            p = line.split(" ", 4)
            cur.checkfails.append((int(p[1]), int(p[2]), int(p[3]), p[4] if len(p) > 4 else ""))
            if cur.calls:
                cur.calls[-1].checks.append(p[4] if len(p) > 4 else "")
        elif t == "X":
            p = line.split(" ", 4)
            cur.aborts.append((int(p[1]), int(p[2]), p[3], p[4] if len(p) > 4 else ""))
            pending_events = []
        elif t == "L":
            p = line.split()
            cur.leaks.append((int(p[1]), int(p[2]), int(p[3]), int(p[4])))
        elif t == "W":
            p = line.split(" ", 3)
            cur.warnings.append((int(p[1]), int(p[2]), p[3] if len(p) > 3 else ""))
        elif t == "Q":
            cur.complete = True
            cur = None
        elif t == "V":
            p = line.split()
            cov = (int(p[1]), int(p[2]))
    return runs, order, cov


SAN_RE = re.compile(r"(AddressSanitizer|UndefinedBehaviorSanitizer|runtime error|LeakSanitizer|DEADLYSIGNAL)")
FRAME_RE = re.compile(r"#(\d+) 0x[0-9a-f]+ in (\S+) (\S+)")


def classify_crash(stderr, gen_file="p.c"):
    """
    Returns (where, summary): where in {'generated','harness','unknown',None}.
    'generated' iff the first non-runtime frame lies in the generated file.
    """
    if not SAN_RE.search(stderr or ""):
        return None, ""
    summary = ""
    for line in stderr.splitlines():
        if "SUMMARY:" in line or "runtime error:" in line or "ERROR: AddressSanitizer" in line:
            summary = re.sub(r"0x[0-9a-f]+", "0x?", line.strip())
            if "ERROR: AddressSanitizer" in line or "runtime error:" in line:
                break
    # UBSan runtime errors print 'file:line:col: runtime error'
    m = re.search(r"(\S+?):(\d+):(\d+): runtime error: (.*)", stderr)
    if m:
        where = "generated" if m.group(1).endswith("/" + gen_file) or m.group(1) == gen_file else "harness"
        return where, "UBSan %s:%s %s" % (os_base(m.group(1)), m.group(2), re.sub(r"0x[0-9a-f]+", "0x?", m.group(4)))
    for m in FRAME_RE.finditer(stderr):
        fn, loc = m.group(2), m.group(3)
        if fn.startswith("__") or "interceptor" in fn or "asan" in fn.lower() or "sanitizer" in fn.lower():
            continue
        if "/" + gen_file + ":" in loc or loc.startswith(gen_file + ":"):
            kind = re.search(r"AddressSanitizer: (\S+)", stderr)
            acc = re.search(r"(READ|WRITE) of size (\d+)", stderr)
            return "generated", "ASan %s %s in %s %s" % (kind.group(1) if kind else "?", (acc.group(1) + acc.group(2)) if acc else "", fn, os_base(loc))
        if "shim.c" in loc or "driver.c" in loc:
            # e.g. memcpy in the shim on a pointer the generated code corrupted: reported separately
            kind = re.search(r"AddressSanitizer: (\S+)", stderr)
            return "harness", "ASan %s in %s %s" % (kind.group(1) if kind else "?", fn, os_base(loc))
        break
    return "unknown", summary


def os_base(p):
    return p.rsplit("/", 1)[-1]
