"""
Shim generator and C build for one compiled nmfu program.

The shim is generated from *metadata only* (declared outputs, hooks, result
codes, resolved flags).  It contains the hook stubs (recorders), the output
snapshot printer, the memory-law checker, the state cloner used for
"EOF at this instant" and the serialiser used by the cycle detector.
"""
import os
import re
import shutil
import subprocess
import tempfile

HERE = os.path.dirname(os.path.abspath(__file__))
DRIVER_C = os.path.join(HERE, "driver.c")

CLANG = shutil.which("clang") or "clang"

SAN_UB = "null,alignment,bounds,bool,pointer-overflow,unreachable,return,vla-bound,builtin,nonnull-attribute,returns-nonnull-attribute"
GEN_FLAGS = ["-O0", "-gline-tables-only", "-fno-omit-frame-pointer", "-w",
             "-fsanitize=address," + SAN_UB, "-fno-sanitize-recover=all",
             "-fsanitize-coverage=trace-pc-guard"]
AUX_FLAGS = ["-O1", "-gline-tables-only", "-fno-omit-frame-pointer", "-w", "-fsanitize=address"]
LINK_FLAGS = ["-fsanitize=address,undefined"]

CANARY_RE = re.compile(r"^zc\d+$")


def _cident(s):
    return re.sub(r"[^A-Za-z0-9_]", "_", s)


def gen_shim(meta, canaries=None):
    """canaries: {name: expected value} for never-assigned guard outputs."""
    name = meta["name"]
    fl = meta["flags"]
    outs = meta["outputs"]
    hooks = meta["hooks"]
    dyn = fl["ALLOCATE_STR_SPACE_DYNAMIC"]
    indirect = fl["INDIRECT_START_PTR"]
    has_end = fl["EOF_SUPPORT"]
    has_free = fl["DYNAMIC_MEMORY"]
    per_state = fl["HOOK_PER_STATE"] and not fl["HOOK_GLOBAL"]
    canaries = canaries or {}
    T = f"{name}_state_t"
    L = []
    A = L.append
    A(f'#include "{name}.h"')
    A("#include <stdlib.h>\n#include <string.h>\n#include <stdint.h>\n#include <stddef.h>")
    A("void drv_put_ll(const char *name, long long v);")
    A("void drv_put_bytes(const char *name, const void *p, size_t n, long long counter, int isnull);")
    A("void drv_msg(const char *fmt, const char *name, long long a, long long b);")
    A("void drv_hook(int idx, unsigned inval, void *st);")
    A("void *__asan_region_is_poisoned(void *beg, size_t size);")
    A(f"const int shim_indirect = {int(indirect)};")
    A(f"const int shim_has_end = {int(has_end)};")
    A(f"const int shim_has_free = {int(has_free)};")
    ny = (meta.get("dfa") or {}).get("n_yield_actions", 0)
    A(f"const int shim_yield_cap = {ny + 2};")
    A(f"size_t shim_state_size(void) {{ return sizeof({T}); }}")
    A(f"int shim_start(void *st) {{ return (int){name}_start(({T} *)st); }}")
    if indirect:
        A(f"int shim_feed(const uint8_t **cur, const uint8_t *end, void *st) {{ return (int){name}_feed(cur, end, ({T} *)st); }}")
    else:
        A(f"int shim_feed(const uint8_t **cur, const uint8_t *end, void *st) {{ return (int){name}_feed(*cur, end, ({T} *)st); }}")
    if has_end:
        A(f"int shim_end(void *st) {{ return (int){name}_end(({T} *)st); }}")
    else:
        A("int shim_end(void *st) { (void)st; return -1; }")
    if has_free:
        A(f"void shim_free(void *st) {{ {name}_free(({T} *)st); }}")
    else:
        A("void shim_free(void *st) { (void)st; }")
    # hooks
    for i, h in enumerate(hooks):
        if per_state:
            A(f"static void shim_hook_{i}(struct {name}_state *s, uint8_t inval) {{ drv_hook({i}, inval, s); }}")
        else:
            A(f"void {name}_{h}_hook({T} *s, uint8_t inval) {{ drv_hook({i}, inval, s); }}")
    A("void shim_set_hooks(void *st) {")
    A(f"    {T} *s = ({T} *)st; (void)s;")
    if per_state:
        for i, h in enumerate(hooks):
            A(f"    s->{h}_hook = shim_hook_{i};")
    A("}")
    A("void shim_poison(void *st, int fill) {")
    A(f"    {T} *s = ({T} *)st; (void)s; (void)fill;")
    for o in outs:
        if o["type"] in ("STR", "RAW"):
            A(f"    memset(&s->c.{o['name']}, fill, sizeof(s->c.{o['name']}));")
            A(f"    memset(&s->{o['name']}_counter, fill, sizeof(s->{o['name']}_counter));")
    A("}")
    A("const char *shim_hook_name(int idx) {")
    A("    switch (idx) {")
    for i, h in enumerate(hooks):
        A(f'    case {i}: return "{h}";')
    A('    default: return "?";')
    A("    }\n}")
    # result codes
    codes = ["OK", "FAIL", "DONE"] + ["FINISH_" + c for c in meta["finish_codes"]] + ["YIELD_" + c for c in meta["yield_codes"]]
    A("const char *shim_code_name(int rc) {")
    A("    switch (rc) {")
    for c in codes:
        A(f'    case {name.upper()}_{c}: return "{c}";')
    A('    default: return "UNKNOWN";')
    A("    }\n}")
    A("int shim_code_class(int rc) {")
    A("    switch (rc) {")
    for c in codes:
        cls = 0 if c == "OK" else 1 if c == "FAIL" else 2 if c == "DONE" else 3 if c.startswith("FINISH_") else 4
        A(f"    case {name.upper()}_{c}: return {cls};")
    A("    default: return -1;")
    A("    }\n}")
    A(f"unsigned shim_get_state(void *st) {{ return (unsigned)(({T} *)st)->state; }}")
    # snapshot
    A("void shim_snapshot(void *st) {")
    A(f"    {T} *s = ({T} *)st; (void)s;")
    for o in outs:
        n = o["name"]
        if o["type"] in ("INT", "BOOL", "ENUM"):
            A(f'    drv_put_ll("{n}", (long long)s->c.{n});')
        elif o["type"] == "STR":
            cap = o["str_size"]
            A("    {")
            A(f"        long long cnt = (long long)s->{n}_counter; size_t n = (size_t)(cnt < 0 ? 0 : cnt); if (n > {cap}) n = {cap};")
            if dyn:
                A(f"        if (!s->c.{n} || __asan_region_is_poisoned((void *)s->c.{n}, {cap})) drv_put_bytes(\"{n}\", NULL, 0, cnt, 1); else drv_put_bytes(\"{n}\", s->c.{n}, n, cnt, 0);")
            else:
                A(f"        drv_put_bytes(\"{n}\", s->c.{n}, n, cnt, 0);")
            A("    }")
        elif o["type"] == "RAW":
            A("    {")
            A(f"        long long cnt = (long long)s->{n}_counter; size_t n = (size_t)(cnt < 0 ? 0 : cnt); if (n > sizeof(s->c.{n})) n = sizeof(s->c.{n});")
            A(f"        drv_put_bytes(\"{n}\", &s->c.{n}, n, cnt, 0);")
            A("    }")
    A("}")
    # memory-law check
    A("int shim_check(void *st, int phase) {")
    A(f"    {T} *s = ({T} *)st; int bad = 0; (void)s; (void)phase;")
    for o in outs:
        n = o["name"]
        if o["type"] == "STR":
            eff = o["str_size"] - 1 if o["str_null"] else o["str_size"]
            A("    if (phase == 0) {")
            A(f"        long long cnt = (long long)s->{n}_counter;")
            A(f'        if (cnt > {eff}) {{ drv_msg("M1:%s:%lld>%lld ", "{n}", cnt, {eff}LL); bad++; }}')
            if dyn:
                A(f'        if (!s->c.{n} && cnt > 0) {{ drv_msg("M4:%s:null-with-count:%lld:%lld ", "{n}", cnt, 0LL); bad++; }}')
                A(f'        if (s->c.{n} && __asan_region_is_poisoned((void *)s->c.{n}, {o["str_size"]})) {{ drv_msg("M4D:%s:dangling-or-undersized-heap-pointer:%lld:%lld ", "{n}", cnt, 0LL); bad++; }}')
            if o["str_null"]:
                guard = f"s->c.{n} && !__asan_region_is_poisoned((void *)s->c.{n}, {o['str_size']}) && " if dyn else ""
                A(f'        if ({guard}cnt >= 0 && cnt <= {eff} && s->c.{n}[cnt] != 0) {{ drv_msg("M2:%s:unterminated-at:%lld:%lld ", "{n}", cnt, (long long)(unsigned char)s->c.{n}[cnt]); bad++; }}')
            A("    }")
            if dyn:
                A(f'    if (phase == 1 && s->c.{n}) {{ drv_msg("M4F:%s:not-null-after-free:%lld:%lld ", "{n}", 0LL, 0LL); bad++; }}')
        elif o["type"] == "RAW":
            A("    if (phase == 0) {")
            A(f"        long long cnt = (long long)s->{n}_counter;")
            A(f'        if (cnt > (long long)sizeof(s->c.{n})) {{ drv_msg("M1:%s:%lld>%lld ", "{n}", cnt, (long long)sizeof(s->c.{n})); bad++; }}')
            A("    }")
        elif n in canaries:
            A(f'    if (phase == 0 && (long long)s->c.{n} != {int(canaries[n])}LL) {{ drv_msg("M3:%s:canary:%lld!=%lld ", "{n}", (long long)s->c.{n}, {int(canaries[n])}LL); bad++; }}')
    A("    return bad;")
    A("}")
    # clone / destroy
    dstrs = [o for o in outs if o["type"] == "STR"] if dyn else []
    A("void *shim_clone(void *st) {")
    A(f"    {T} *s = ({T} *)st; {T} *c = ({T} *)malloc(sizeof({T})); memcpy(c, s, sizeof({T}));")
    for o in dstrs:
        n = o["name"]
        A(f"    if (s->c.{n} && !__asan_region_is_poisoned((void *)s->c.{n}, {o['str_size']})) {{ c->c.{n} = malloc({o['str_size']}); memcpy(c->c.{n}, s->c.{n}, {o['str_size']}); }} else c->c.{n} = NULL;")
    A("    return c;")
    A("}")
    A("void shim_destroy_clone(void *st) {")
    A(f"    {T} *c = ({T} *)st;")
    for o in dstrs:
        A(f"    free(c->c.{o['name']});")
    A("    free(c);")
    A("}")
    # config serialiser for the cycle detector: struct bytes with heap pointers
    # replaced by a null/non-null flag, followed by the heap contents
    A("size_t shim_config(void *st, uint8_t *out, size_t cap) {")
    A(f"    {T} *s = ({T} *)st; size_t n = 0;")
    A(f"    if (sizeof({T}) > cap) return 0;")
    A(f"    memcpy(out, s, sizeof({T})); n = sizeof({T});")
    for o in dstrs:
        n_ = o["name"]
        A(f"    memset(out + offsetof({T}, c.{n_}), s->c.{n_} ? 1 : 0, sizeof(s->c.{n_}));")
    for o in dstrs:
        n_ = o["name"]
        # (the tick callback can fire between a free() and the store of NULL: never read a block ASan considers dead)
        A(f"    if (s->c.{n_} && n + {o['str_size']} <= cap && !__asan_region_is_poisoned((void *)s->c.{n_}, {o['str_size']})) {{ memcpy(out + n, s->c.{n_}, {o['str_size']}); n += {o['str_size']}; }}")
    A("    return n;")
    A("}")
    return "\n".join(L) + "\n"


class BuildError(Exception):
    def __init__(self, stage, output):
        super().__init__(stage)
        self.stage = stage
        self.output = output


_DRIVER_OBJ = {}


def driver_object(workdir):
    """driver.o is program independent: compiled once per check process."""
    key = workdir
    if key in _DRIVER_OBJ and os.path.exists(_DRIVER_OBJ[key]):
        return _DRIVER_OBJ[key]
    out = os.path.join(workdir, "driver_%d.o" % os.getpid())
    r = subprocess.run([CLANG, "-c", DRIVER_C, "-o", out] + AUX_FLAGS, capture_output=True, text=True)
    if r.returncode != 0:
        raise BuildError("driver", r.stderr)
    _DRIVER_OBJ[key] = out
    return out


def build(comp, workdir, tag, canaries=None, driver_obj=None):
    """
    comp: result of nmfu_child.do_compile (accepted).  Returns path of the
    driver binary.  Raises BuildError('generated', ...) when the *generated C*
    does not compile (counted as unbuildable, see DESIGN 8.4/8.5) and
    BuildError('shim'|'link', ...) for harness-side failures.
    """
    d = os.path.join(workdir, tag)
    os.makedirs(d, exist_ok=True)
    name = comp["meta"]["name"]
    with open(os.path.join(d, name + ".c"), "w") as f:
        f.write(comp["c"])
    with open(os.path.join(d, name + ".h"), "w") as f:
        f.write(comp["h"])
    with open(os.path.join(d, "shim.c"), "w") as f:
        f.write(gen_shim(comp["meta"], canaries))
    r = subprocess.run([CLANG, "-c", name + ".c", "-o", "p.o"] + GEN_FLAGS, cwd=d, capture_output=True, text=True)
    if r.returncode != 0:
        raise BuildError("generated", r.stderr)
    r = subprocess.run([CLANG, "-c", "shim.c", "-o", "shim.o", "-I."] + AUX_FLAGS, cwd=d, capture_output=True, text=True)
    if r.returncode != 0:
        raise BuildError("shim", r.stderr)
    dobj = driver_obj or driver_object(workdir)
    r = subprocess.run([CLANG, "p.o", "shim.o", dobj, "-o", "drv"] + LINK_FLAGS, cwd=d, capture_output=True, text=True)
    if r.returncode != 0:
        raise BuildError("link", r.stderr)
    return os.path.join(d, "drv")


def cleanup(workdir, tag):
    shutil.rmtree(os.path.join(workdir, tag), ignore_errors=True)
