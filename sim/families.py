"""Model families F1-F4 (closed-form reference models).  Filled in below."""


def run(prop, tier, root, tree, workdir, workers):
    return []
