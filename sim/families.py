"""
Model families (oracle L3): small program generators that come with a closed-form
reference model.  The models are tiny sequential interpreters over the
*generator's* item list; they share nothing with nmfu (no AST, no DFA).

  F1 frames   literals / fixed fields / open fields with terminators / actions /
              yields / wait / one try-catch wrapper / tails (DONE, finish, finish CODE,
              `end` + actions)                      -> C10, C03 (out-of-space), C17
  F2 lexer    loop { greedy case { ... } } tokenizer -> C10 (yield protocol)
  F3 eof      case { rec -> ..  end -> ..  else -> .. } and data/EOF separation -> C17

Findings use oracles F1 (protocol / procedural trace), F1M (out-of-space timing, C03),
F1E / F3 (end() results, C17), F2 (token stream).
"""
import os

from . import sched, workload, oracles, engine

LET = [ord(c) for c in "abcdefghijklmnopqrstuvwxyz"]
DIG = [ord(c) for c in "0123456789"]
PUN = [ord(c) for c in ",;:=#@!-_~"]


def esc(bs):
    out = ""
    for b in bs:
        c = chr(b)
        if c in '"\\':
            out += "\\" + c
        elif 32 <= b < 127:
            out += c
        else:
            out += "\\x%02x" % b
    return '"' + out + '"'


def cls_text(lo, hi):
    return "[%s-%s]" % (chr(lo), chr(hi))


# =====================================================================================
# F1 generator
# =====================================================================================

def gen_f1(rng, force=None):
    force = force or {}
    r = rng
    spec = {"family": "F1", "outputs": [], "items": [], "tail": None}
    outs = spec["outputs"]
    strs = []
    for i in range(r.choice((1, 2, 2))):
        size = r.choice((2, 3, 4, 6, 9))
        unterm = r.random() < 0.25
        outs.append({"name": "s%d" % i, "type": "STR", "size": size, "unterm": unterm, "cap": size if unterm else size - 1})
        strs.append(outs[-1])
        outs.append({"name": "zc%d" % i, "type": "INT", "init": 90, "canary": True})
    outs.append({"name": "n0", "type": "INT", "init": 0})
    outs.append({"name": "b0", "type": "BOOL", "init": 0})
    hooks = ["h0", "h1", "h2", "bad", "over"]
    use_yield = force.get("yield", r.random() < 0.5)
    ycodes = ["YA", "YB"] if use_yield else []
    fcodes = ["TOO", "FIN"]
    pools = [(97, 102), (103, 108), (109, 116), (117, 122), (48, 57)]

    def lit(avoid=()):
        for _ in range(20):
            bs = [r.choice(LET + DIG + PUN)] + [r.choice(LET + DIG) for _ in range(r.choice((0, 1, 2, 3)))]
            if bs[0] not in avoid:
                break
        k = r.random()
        return {"t": "lit", "bytes": bs, "ci": k < 0.2 and all(b in LET for b in bs), "bin": 0.2 <= k < 0.3}

    def actions(n):
        acts = []
        for _ in range(n):
            k = r.random()
            if k < 0.4:
                acts.append({"t": "hook", "name": r.choice(hooks[:3])})
            elif k < 0.6:
                acts.append({"t": "inc", "var": "n0", "k": r.choice((1, 2, 10))})
            elif k < 0.7:
                acts.append({"t": "setb", "var": "b0", "val": r.choice((0, 1))})
            elif k < 0.8 and strs:
                acts.append({"t": "del", "dest": r.choice(strs)["name"]})
            elif ycodes:
                acts.append({"t": "yield", "code": r.choice(ycodes)})
            else:
                acts.append({"t": "hook", "name": r.choice(hooks[:3])})
        return acts

    def simple_body(avoid):
        """closed matches + actions for clause / optional bodies (no nested blocks)"""
        b = []
        for _ in range(r.choice((0, 1, 1, 2))):
            if r.random() < 0.5:
                b.append(lit(avoid))
            else:
                lo, hi = r.choice(pools)
                b.append({"t": "fixed", "cls": [lo, hi], "n": r.choice((1, 2)), "dest": r.choice(strs)["name"] if strs and r.random() < 0.5 else None})
            b += actions(r.choice((0, 1)))
        return b

    def distinct_lits(n, avoid=()):
        firsts = set(avoid)
        out_l = []
        for _ in range(n):
            for _ in range(30):
                l = lit(firsts)
                l["ci"] = False
                l["bin"] = False
                if l["bytes"][0] not in firsts:
                    break
            firsts.add(l["bytes"][0])
            out_l.append(l)
        return out_l, firsts

    def block_item():
        """LL(1) blocks: optional / case [else] / dispatch loop; each followed by a closed literal"""
        kind = r.choice(("opt", "case", "case-else", "loopcase"))
        if kind == "opt":
            (l0, follow), firsts = distinct_lits(2)
            return [{"t": "opt", "body": [l0] + actions(r.choice((0, 1))) + simple_body(())}, follow]
        if kind in ("case", "case-else"):
            n = r.choice((2, 3))
            ls, firsts = distinct_lits(n + 1)
            follow = ls.pop()
            clauses = [{"label": l, "body": actions(r.choice((0, 1, 1))) + simple_body(())} for l in ls]
            els = None
            if kind == "case-else":
                els = [a for a in actions(r.choice((0, 1, 2))) if a["t"] != "yield"]
            return [{"t": "case", "clauses": clauses, "else": els}, follow]
        n = r.choice((1, 2, 3))
        ls, firsts = distinct_lits(n + 1)
        brk = ls.pop()
        clauses = [{"label": l, "body": actions(r.choice((0, 1, 1))) + simple_body(())} for l in ls]
        return [{"t": "loopcase", "clauses": clauses, "brk": brk, "brk_actions": [a for a in actions(r.choice((0, 1))) if a["t"] != "yield"]}]

    ACTS = ("hook", "inc", "setb", "del", "yield")

    def strip_dest(items):
        """inside a foreach body: nothing appends by itself, and no action sits right behind a case label.  (nmfu
        runs such a clause-leading action on the transition of the *next* byte, and the do-actions of the foreach
        are prepended to that transition: the two swap places with respect to the procedural reading.  That is a
        matter of statement semantics - C01, not decided here - so the family stays clear of it; DESIGN 8.4.)"""
        for it in items:
            if it["t"] in ("fixed", "field"):
                it["dest"] = None
            for key in ("body", "else"):
                if isinstance(it.get(key), list):
                    strip_dest(it[key])
            if "brk_actions" in it:
                it["brk_actions"] = []
            for cl in it.get("clauses", ()):
                while cl["body"] and cl["body"][0]["t"] in ACTS:
                    cl["body"].pop(0)
                strip_dest(cl["body"])
        return items

    def foreach_item(depth=0):
        """foreach { matches / LL(1) blocks } do { actions on $last }: the do-actions run once for every byte the
        body consumes, before the body's own actions on that byte; nothing in the body appends by itself"""
        body = []
        for _ in range(r.choice((1, 1, 2))):
            k = r.random()
            if k < 0.3:
                body += block_item()
            elif k < 0.5:
                body.append(lit())
            elif k < 0.7:
                lo, hi = r.choice(pools)
                body.append({"t": "fixed", "cls": [lo, hi], "n": r.choice((1, 2, 3)), "dest": None})
            elif k < 0.9 or depth:
                lo, hi = r.choice(pools)
                body.append({"t": "field", "cls": [lo, hi], "dest": None})
                body.append({"t": "lit", "bytes": [r.choice([c for c in PUN + LET + DIG if not (lo <= c <= hi)])], "ci": False, "bin": False})
            else:
                body.append(foreach_item(depth + 1))
                body.append(lit())
            if r.random() < 0.3:
                body += [a for a in actions(1) if a["t"] != "del"]
        strip_dest(body)
        acts = []
        kinds = ["inc", "hook", "applast", "applast", "condhook"]      # (a yield is not accepted among do-actions)
        for kk in r.sample(kinds, r.choice((1, 2, 2, 3))):
            if kk == "inc":
                acts.append({"t": "inc", "var": "n0", "k": 1})
            elif kk == "hook":
                acts.append({"t": "hook", "name": "h0"})
            elif kk == "applast" and strs:
                if not any(a["t"] == "applast" for a in acts):
                    acts.append({"t": "applast", "dest": r.choice(strs)["name"]})
            elif kk == "condhook":
                acts.append({"t": "condhook", "name": "h1", "byte": r.choice(LET[:8] + DIG[:3])})
        if not acts:
            acts.append({"t": "hook", "name": "h0"})
        return {"t": "foreach", "body": body, "acts": acts}

    def segment():
        """a few match items, each possibly followed by actions; always ends with a closed match"""
        seg = []
        for _ in range(r.choice((1, 2, 3))):
            if force.get("foreach") and r.random() < 0.45:
                seg.append(foreach_item())
                if seg[-1]["body"][-1]["t"] not in ("lit", "fixed"):
                    seg.append(lit())
                seg += actions(r.choice((0, 0, 1)))
                continue
            k = r.random()
            if force.get("blocks", True) and k < 0.22:
                seg += block_item()
                seg += actions(r.choice((0, 0, 1)))
                continue
            k = r.random()
            if k < 0.35:
                seg.append(lit())
            elif k < 0.55:
                lo, hi = r.choice(pools)
                seg.append({"t": "fixed", "cls": [lo, hi], "n": r.choice((1, 2, 3)), "dest": r.choice(strs)["name"] if strs and r.random() < 0.6 else None})
            elif k < 0.9 and strs:
                lo, hi = r.choice(pools)
                seg.append({"t": "field", "cls": [lo, hi], "dest": r.choice(strs)["name"]})
                term = [r.choice([c for c in PUN + LET + DIG if not (lo <= c <= hi)])]
                seg.append({"t": "lit", "bytes": term, "ci": False, "bin": False})
            else:
                seg.append({"t": "wait", "bytes": [r.choice(PUN)] + [r.choice(LET) for _ in range(r.choice((0, 1, 2)))]})
            seg += actions(r.choice((0, 0, 1, 2)))
        return seg

    items = segment()
    shape = force.get("try", r.choice(("none", "oos-finish", "oos-wait", "nomatch-wait", "f4", "none", "nomatch-lit", "nomatch-empty")))
    if shape == "oos-finish" and strs:
        body = segment()
        items.append({"t": "try", "kinds": ["oos"], "body": body, "handler": {"t": "finish", "code": "TOO"}})
    elif shape == "oos-wait" and strs:
        body = segment()
        items.append({"t": "try", "kinds": ["oos"], "body": body, "handler": {"t": "wait", "hook": "over", "term": r.choice(PUN)}})
    elif shape == "nomatch-wait":
        body = segment()
        items.append({"t": "try", "kinds": ["nomatch"], "body": body, "handler": {"t": "wait", "hook": "bad", "term": r.choice(PUN)}})
    elif shape in ("nomatch-lit", "nomatch-empty"):
        # a handler that itself starts with a closed match (or is empty, so that what follows the try sees the
        # offending byte): when that also rejects the byte, FAIL must still point at the byte, not behind it
        first = lit()
        first["ci"] = False
        first["bin"] = False
        if len(first["bytes"]) < 2:
            first["bytes"].append(r.choice(LET))
        body = [first] + actions(r.choice((0, 1))) + ([lit()] if r.random() < 0.5 else [])
        # what the handler (or the statement after an empty handler) expects is, more often than not, a byte the
        # try body also expects at that point: the hand-over then adds no new byte to look at
        share = r.random() < 0.7
        hl = lit()
        hl["ci"] = False
        hl["bin"] = False
        fl = lit()
        fl["ci"] = False
        fl["bin"] = False
        if share:
            hl["bytes"][0] = first["bytes"][r.choice((0, 1))]
            fl["bytes"][0] = first["bytes"][r.choice((0, 1))]
        if shape == "nomatch-lit":
            h = {"t": "lit", "hook": r.choice((None, "bad")), "item": hl}
        else:
            h = {"t": "empty"}
        items.append({"t": "try", "kinds": ["nomatch"], "body": body, "handler": h})
        items.append(fl)
    elif shape == "f4":
        head = lit()
        w = {"t": "wait", "bytes": [r.choice(PUN)] + [r.choice(LET) for _ in range(r.choice((0, 1, 2)))]}
        body = [head, w, {"t": "hook", "name": "h2"}] + (segment() if r.random() < 0.5 else [])
        items.append({"t": "try", "kinds": ["nomatch", "oos"], "body": body, "handler": {"t": "wait", "hook": "bad", "term": r.choice(PUN)}})
    if r.random() < 0.6:
        items += segment()
    if ycodes and r.random() < 0.3:
        # a yield as the very last statement: the yielding transition leads straight to the accept state
        if items[-1]["t"] in ("hook", "inc", "setb", "del"):
            items.append({"t": "yield", "code": r.choice(ycodes)})
        elif items[-1]["t"] in ("lit", "fixed"):
            items.append({"t": "yield", "code": r.choice(ycodes)})
    # the program must end with a closed match before the tail (no open field last)
    tail_kind = force.get("tail", r.choice(("done", "done", "finish", "finishcode", "end", "end")))
    tail = {"kind": tail_kind, "actions": [], "code": None}
    if tail_kind in ("end",):
        tail["actions"] = [a for a in actions(r.choice((0, 1, 2))) if a["t"] != "yield"]
        if r.random() < 0.3:
            tail["code"] = "FIN"
    elif tail_kind == "finishcode":
        tail["code"] = "FIN"
    if tail_kind in ("finish", "finishcode") and ycodes and items[-1]["t"] != "yield" and r.random() < 0.45:
        # a finish that directly follows a yield (the finish runs on the call after the yield returned)
        items.append({"t": "yield", "code": r.choice(ycodes)})
    spec["items"] = items
    spec["tail"] = tail
    spec["hooks"] = hooks
    spec["ycodes"] = ycodes
    spec["fcodes"] = fcodes
    spec["source"] = render_f1(spec)
    need = []
    if ycodes:
        need.append("-fyield-support")
    if tail_kind == "end":
        need.append("-feof-support")
    spec["need"] = need
    return spec


def render_item(it, ind):
    p = "    " * ind
    t = it["t"]
    if t == "lit":
        if it.get("bin"):
            return [p + '"%s"b;' % " ".join("%02x" % b for b in it["bytes"])]
        return [p + esc(it["bytes"]) + ("i;" if it.get("ci") else ";")]
    if t == "fixed":
        m = "/%s{%d}/" % (cls_text(*it["cls"]), it["n"])
        return [p + ("%s += %s;" % (it["dest"], m) if it["dest"] else m + ";")]
    if t == "field":
        return [p + ("%s += /%s+/;" % (it["dest"], cls_text(*it["cls"])) if it["dest"] else "/%s+/;" % cls_text(*it["cls"]))]
    if t == "wait":
        return [p + "wait %s;" % esc(it["bytes"])]
    if t == "hook":
        return [p + "%s();" % it["name"]]
    if t == "inc":
        return [p + "%s = [%s + %d];" % (it["var"], it["var"], it["k"])]
    if t == "setb":
        return [p + "%s = %s;" % (it["var"], "true" if it["val"] else "false")]
    if t == "del":
        return [p + "delete %s;" % it["dest"]]
    if t == "yield":
        return [p + "yield %s;" % it["code"]]
    if t == "applast":
        return [p + "%s += [$last];" % it["dest"]]
    if t == "condhook":
        return [p + "if $last == %d {" % it["byte"], p + "    %s();" % it["name"], p + "}"]
    if t == "foreach":
        L = [p + "foreach {"]
        for x in it["body"]:
            L += render_item(x, ind + 1)
        L.append(p + "} do {")
        for x in it["acts"]:
            L += render_item(x, ind + 1)
        return L + [p + "}"]
    if t == "opt":
        L = [p + "optional {"]
        for x in it["body"]:
            L += render_item(x, ind + 1)
        return L + [p + "}"]
    if t == "case":
        L = [p + "case {"]
        for c in it["clauses"]:
            L.append(p + "    " + render_item(c["label"], 0)[0].rstrip(";") + " -> {")
            for x in c["body"]:
                L += render_item(x, ind + 2)
            L.append(p + "    }")
        if it["else"] is not None:
            L.append(p + "    else -> {")
            for x in it["else"]:
                L += render_item(x, ind + 2)
            L.append(p + "    }")
        return L + [p + "}"]
    if t == "loopcase":
        L = [p + "loop {", p + "    case {"]
        for c in it["clauses"]:
            L.append(p + "        " + render_item(c["label"], 0)[0].rstrip(";") + " -> {")
            for x in c["body"]:
                L += render_item(x, ind + 3)
            L.append(p + "        }")
        L.append(p + "        " + render_item(it["brk"], 0)[0].rstrip(";") + " -> {")
        for x in it["brk_actions"]:
            L += render_item(x, ind + 3)
        L += [p + "            break;", p + "        }", p + "    }", p + "}"]
        return L
    if t == "try":
        L = [p + "try {"]
        for x in it["body"]:
            L += render_item(x, ind + 1)
        kinds = ", ".join("outofspace" if k == "oos" else "nomatch" for k in it["kinds"])
        L.append(p + "}")
        L.append(p + "catch (%s) {" % kinds)
        h = it["handler"]
        if h["t"] == "finish":
            L.append(p + "    finish %s;" % h["code"])
        elif h["t"] == "lit":
            if h.get("hook"):
                L.append(p + "    %s();" % h["hook"])
            L += render_item(h["item"], ind + 1)
        elif h["t"] == "empty":
            pass
        else:
            if h.get("hook"):
                L.append(p + "    %s();" % h["hook"])
            L.append(p + "    wait %s;" % esc([h["term"]]))
        L.append(p + "}")
        return L
    raise ValueError(t)


def render_f1(spec):
    L = []
    for o in spec["outputs"]:
        if o["type"] == "STR":
            L.append("out %sstr[%d] %s;" % ("unterminated " if o["unterm"] else "", o["size"], o["name"]))
        elif o["type"] == "INT":
            L.append("out int%s %s = %d;" % ("{size 1}" if o.get("canary") else "", o["name"], o["init"]))
        elif o["type"] == "BOOL":
            L.append("out bool %s = false;" % o["name"])
    for h in spec["hooks"]:
        L.append("hook %s;" % h)
    L.append("finishcode %s;" % ", ".join(spec["fcodes"]))
    if spec["ycodes"]:
        L.append("yieldcode %s;" % ", ".join(spec["ycodes"]))
    L.append("")
    L.append("parser {")
    for it in spec["items"]:
        L += render_item(it, 1)
    t = spec["tail"]
    if t["kind"] == "finish":
        L.append("    finish;")
    elif t["kind"] == "finishcode":
        L.append("    finish %s;" % t["code"])
    elif t["kind"] == "end":
        L.append("    end;")
        for a in t["actions"]:
            L += render_item(a, 1)
        if t["code"]:
            L.append("    finish %s;" % t["code"])
    L.append("}")
    return "\n".join(L) + "\n"


# =====================================================================================
# F1 model
# =====================================================================================

class NeedInput(Exception):
    pass


class PErr(Exception):
    def __init__(self, kind):
        self.kind = kind


class Term(Exception):
    def __init__(self, code):
        self.code = code


class F1Model:
    def __init__(self, spec, data):
        self.spec = spec
        self.data = data
        self.pos = 0
        self.out = {}
        for o in spec["outputs"]:
            self.out[o["name"]] = bytearray() if o["type"] == "STR" else o["init"]
        self.caps = {o["name"]: o["cap"] for o in spec["outputs"] if o["type"] == "STR"}
        self.events = []          # {"kind","name","k","snap","opt","taint"}
        self.since = []           # indices of events emitted since the last consumed byte
        self.silent_since = False
        self.taint = False
        self.where = None         # what the machine was doing when input ran out
        self.in_try = []
        self.oos_events = []      # (k, dest) out-of-space instants
        self.terminal = None      # (code, k)
        self.finished_clean = False
        self.each = []            # do-actions of the enclosing foreach statements, outermost first
        self.last = None

    # ---- primitives
    def snap(self):
        parts = []
        for o in self.spec["outputs"]:
            v = self.out[o["name"]]
            if o["type"] == "STR":
                parts.append("%s=%d:%s" % (o["name"], len(v), bytes(v).hex()))
            else:
                parts.append("%s=%d" % (o["name"], int(v)))
        return ";".join(parts)

    def peek(self, where):
        if self.pos >= len(self.data):
            self.where = where
            self.where_handlers = [t["handler"].get("hook") for t in self.in_try if t["handler"]["t"] == "wait"]
            raise NeedInput()
        return self.data[self.pos]

    def consume(self):
        self.last = self.data[self.pos]
        self.pos += 1
        if not self.each:
            self.since = []
            self.silent_since = False
            return
        # do-actions of the enclosing foreach statements run on this byte's transition, ahead of whatever was still
        # pending from before the byte: if one of them fails, those pending actions may or may not have run
        n0 = len(self.events)
        try:
            for acts in self.each:
                for a in acts:
                    self.run_item(a)
        except PErr:
            # the byte whose do-action could not be performed is the offending byte
            self.pos -= 1
            raise
        self.since = list(range(n0, len(self.events)))
        self.silent_since = any(a["t"] in ("inc", "applast") for acts in self.each for a in acts)

    def emit(self, kind, name):
        self.events.append({"kind": kind, "name": name, "k": self.pos, "snap": self.snap(), "opt": False, "taint": self.taint})
        self.since.append(len(self.events) - 1)

    def error(self, kind):
        # actions pending when an error strikes may or may not have run
        for i in self.since:
            self.events[i]["opt"] = True
        if self.silent_since:
            self.taint = True
        self.since = []
        self.silent_since = False
        raise PErr(kind)

    def append(self, dest, b):
        if len(self.out[dest]) >= self.caps[dest]:
            self.oos_events.append((self.pos, dest))
            self.error("oos")
        self.out[dest].append(b)

    # ---- items
    def run_item(self, it):
        t = it["t"]
        if t == "lit":
            for j, b in enumerate(it["bytes"]):
                c = self.peek(("lit", j))
                ok = (c == b) or (it.get("ci") and chr(c).lower() == chr(b).lower() and chr(c).isalpha())
                if not ok:
                    self.error("nomatch")
                self.consume()
        elif t == "fixed":
            lo, hi = it["cls"]
            for j in range(it["n"]):
                c = self.peek(("fixed", j))
                if not (lo <= c <= hi):
                    self.error("nomatch")
                if it["dest"]:
                    self.append(it["dest"], c)
                self.consume()
        elif t == "field":
            lo, hi = it["cls"]
            c = self.peek(("field", 0))
            if not (lo <= c <= hi):
                self.error("nomatch")
            if it["dest"]:
                self.append(it["dest"], c)
            self.consume()
            while True:
                c = self.peek(("field", 1))
                if not (lo <= c <= hi):
                    break
                if it["dest"]:
                    self.append(it["dest"], c)
                self.consume()
        elif t == "wait":
            self.wait(it["bytes"])
        elif t == "hook":
            self.emit("hook", it["name"])
        elif t == "inc":
            self.out[it["var"]] = ((self.out[it["var"]] + it["k"] + 2 ** 31) % 2 ** 32) - 2 ** 31
            self.silent_since = True
        elif t == "setb":
            self.out[it["var"]] = it["val"]
            self.silent_since = True
        elif t == "del":
            self.out[it["dest"]] = bytearray()
            self.silent_since = True
        elif t == "yield":
            self.emit("yield", it["code"])
        elif t == "applast":
            self.append(it["dest"], self.last)
            self.silent_since = True
        elif t == "condhook":
            if self.last == it["byte"]:
                self.emit("hook", it["name"])
        elif t == "foreach":
            self.each.append(it["acts"])
            try:
                for x in it["body"]:
                    self.run_item(x)
            finally:
                self.each.pop()
        elif t == "opt":
            c = self.peek(("opt", 0))
            if c == it["body"][0]["bytes"][0]:
                for x in it["body"]:
                    self.run_item(x)
        elif t == "case":
            c = self.peek(("case", 0))
            chosen = None
            for cl in it["clauses"]:
                if cl["label"]["bytes"][0] == c:
                    chosen = cl
            took_else = False
            if chosen is not None:
                # the else clause is taken as soon as the input stops being a prefix of every label,
                # also in the middle of a label; its body starts at the offending byte
                for j, b in enumerate(chosen["label"]["bytes"]):
                    c = self.peek(("case", j))
                    if c != b:
                        if it["else"] is None:
                            self.error("nomatch")
                        took_else = True
                        break
                    self.consume()
                if not took_else:
                    for x in chosen["body"]:
                        self.run_item(x)
            else:
                if it["else"] is None:
                    self.error("nomatch")
                took_else = True
            if took_else:
                for x in it["else"]:
                    self.run_item(x)
        elif t == "loopcase":
            while True:
                c = self.peek(("loopcase", 0))
                if c == it["brk"]["bytes"][0]:
                    self.run_item(it["brk"])
                    for x in it["brk_actions"]:
                        self.run_item(x)
                    break
                for cl in it["clauses"]:
                    if cl["label"]["bytes"][0] == c:
                        self.run_item(cl["label"])
                        for x in cl["body"]:
                            self.run_item(x)
                        break
                else:
                    self.error("nomatch")
        elif t == "try":
            try:
                self.in_try.append(it)
                try:
                    for x in it["body"]:
                        self.run_item(x)
                finally:
                    self.in_try.pop()
            except PErr as e:
                if e.kind not in it["kinds"]:
                    raise
                h = it["handler"]
                if h["t"] == "finish":
                    raise Term("FINISH_" + h["code"])
                if h["t"] == "empty":
                    return
                if h.get("hook"):
                    self.emit("hook", h["hook"])
                if h["t"] == "lit":
                    self.run_item(h["item"])     # a mismatch here has no handler left: FAIL on that byte
                    return
                self.wait([h["term"]])
        else:
            raise ValueError(t)

    def wait(self, pat):
        """restart semantics: after a mismatch resume from the pattern's beginning with the
        offending byte, which is skipped if it cannot start the pattern"""
        j = 0
        while j < len(pat):
            c = self.peek(("wait", j))
            if c == pat[j]:
                j += 1
                self.consume()
            elif j > 0:
                j = 0          # re-dispatch the same byte at the pattern start
            else:
                self.consume()

    def run(self):
        try:
            for it in self.spec["items"]:
                self.run_item(it)
            t = self.spec["tail"]
            if t["kind"] == "done":
                self.finished_clean = not self.since and not self.silent_since
                raise Term("DONE")
            if t["kind"] == "finish":
                raise Term("DONE")
            if t["kind"] == "finishcode":
                raise Term("FINISH_" + t["code"])
            if t["kind"] == "end":
                self.peek(("end", 0))      # raises NeedInput at end of data
                self.error("nomatch")      # a data byte never matches `end`
        except NeedInput:
            for i in self.since:
                self.events[i]["opt"] = True
            return
        except PErr:
            self.terminal = ("FAIL", self.pos)
        except Term as t:
            self.terminal = (t.code, self.pos)

    # ---- what end() must return after exactly this input
    def eof_expectation(self, yields_delivered=False):
        """None = not decided by the model; else (code, [tail events] | None).
        yields_delivered: the observed trace already returned every yield the model has produced,
        so none of them is still pending when end() is called."""
        if self.terminal is not None:
            if self.terminal[0] == "DONE" and self.spec["tail"]["kind"] == "done" and self.finished_clean and self.pos == len(self.data):
                return ("DONE", [])
            if self.terminal[0] == "FAIL":
                return ("FAIL", None)
            return None
        w = self.where
        if w is None:
            return None
        if w[0] == "end":
            if self.taint or self.silent_since or self.since:
                # actions pending between the last byte and EOF: their fate is left open
                pass
            m = F1Model.__new__(F1Model)
            m.__dict__.update(self.__dict__)
            m.out = {k: (bytearray(v) if isinstance(v, bytearray) else v) for k, v in self.out.items()}
            pending = [self.events[i]["name"] for i in self.since if self.events[i]["kind"] == "hook"]
            if any(self.events[i]["kind"] == "yield" for i in self.since) and not yields_delivered:
                return None    # a yield pending at EOF: end() returns it first; left to the laws
            m.events = []
            m.since = []
            t = self.spec["tail"]
            for a in t["actions"]:
                m.run_item(a)
            code = "FINISH_" + t["code"] if t["code"] else "DONE"
            return (code, m.events, pending)
        if w[0] in ("opt", "case", "loopcase"):
            return None     # EOF at a decision point: not decided by the model
        if w[0] == "wait":
            # EOF during a wait does not enter an enclosing handler
            return ("FAIL", ("NOHANDLER", [h for h in getattr(self, "where_handlers", []) if h]))
        return ("FAIL", None)


def observed_events(canon):
    obs = []
    for st in canon.steps:
        for (name, inval, pos, snap) in st.events:
            obs.append({"kind": "hook", "name": name, "snap": snap, "pos": pos, "byte": st.i})
        if st.cls == "YIELD":
            obs.append({"kind": "yield", "name": st.code[len("YIELD_"):], "snap": st.snap, "pos": st.pos_after, "byte": st.i})
        elif st.cls in ("FAIL", "DONE", "FINISH"):
            obs.append({"kind": "term", "name": st.code, "snap": st.snap, "pos": st.pos_after, "byte": st.i})
            break
    return obs


def check_f1(spec, data, canon, flags):
    """Compare the canonical trace of the real parser with the model.  Returns findings."""
    m = F1Model(spec, data)
    m.run()
    out, obs = compare_model_trace(m.events, m.terminal, m.taint, canon, data, flags, "F1")
    if out:
        return out
    F = lambda kind, detail, oracle="F1": out.append(oracles.V(oracle, kind, -1, 0, detail))
    if getattr(canon, "coarse", False):
        return out
    return _check_f1_extras(spec, data, canon, flags, m, obs, out, F)


def compare_model_trace(m_events, m_terminal, m_taint, canon, data, flags, oracle):
    """generic comparison of a model's k-tagged event list with the observed canonical trace.
    If canon.coarse is set the trace comes from a whole-buffer schedule (used when the one-byte
    schedule could not be completed): which byte was in flight is then unknown, so only order,
    identity, outputs and pointer positions are compared."""
    out = []
    indirect = flags["INDIRECT_START_PTR"]
    obs = observed_events(canon)
    # bytes consumed by the real parser
    if canon.terminal_at is not None:
        consumed = canon.steps[canon.terminal_at].i
    else:
        consumed = len(data)
    mev = list(m_events)
    if m_terminal is not None:
        mev.append({"kind": "term", "name": m_terminal[0], "k": m_terminal[1], "snap": None, "opt": False, "taint": m_taint})
    j = 0
    F = lambda kind, detail, oracle=oracle: out.append(oracles.V(oracle, kind, -1, 0, detail))
    return _compare_rest(out, obs, mev, j, F, indirect, consumed, data, getattr(canon, "coarse", False)), obs


def _compare_rest(out, obs, mev, j, F, indirect, consumed, data, coarse=False):
    for o in obs:
        # skip optional model events that do not match
        while j < len(mev) and mev[j]["opt"] and not (mev[j]["kind"] == o["kind"] and mev[j]["name"] == o["name"]):
            j += 1
        if j >= len(mev):
            F("event-not-in-model", "parser produced %s %s at byte %d but the procedural reading has no further event (model events: %s)" % (
                o["kind"], o["name"], o["byte"], _mev(mev)))
            return out
        e = mev[j]
        if (e["kind"], e["name"]) != (o["kind"], o["name"]):
            F("event-order-or-identity", "parser produced %s %s at byte %d where the procedural reading prescribes %s %s after %d bytes (model events: %s)" % (
                o["kind"], o["name"], o["byte"], e["kind"], e["name"], e["k"], _mev(mev)))
            return out
        # an event cannot happen before the bytes that precede it in the program were consumed
        if not coarse and o["byte"] < e["k"] - 1 and o["kind"] != "term":
            F("event-too-early", "%s %s fired while byte %d was in flight, the program reaches it after %d bytes" % (o["kind"], o["name"], o["byte"], e["k"]))
            return out
        if o["kind"] == "hook" and not e["taint"] and o["snap"] != e["snap"]:
            F("outputs-at-hook", "hook %s after %d bytes: model outputs %s, parser outputs %s" % (o["name"], e["k"], e["snap"], o["snap"]))
            return out
        if o["kind"] == "yield" and indirect and o["pos"] != e["k"]:
            F("yield-pointer", "yield %s: start pointer at %d, bytes consumed by the program %d" % (o["name"], o["pos"], e["k"]))
            return out
        if o["kind"] == "yield" and not e["taint"] and o["snap"] != e["snap"]:
            F("outputs-at-yield", "yield %s after %d bytes: model outputs %s, parser outputs %s" % (o["name"], e["k"], e["snap"], o["snap"]))
            return out
        if o["kind"] == "term":
            k = e["k"]
            if o["name"] == "FAIL":
                if indirect and o["pos"] != k:
                    F("fail-pointer", "FAIL left the start pointer at %d, the first offending byte is %d" % (o["pos"], k))
                    return out
                if not coarse and o["byte"] != k:
                    F("fail-timing", "FAIL returned while byte %d was in flight, the offending byte is %d" % (o["byte"], k))
                    return out
            else:
                if not coarse and o["byte"] not in (k - 1, k):
                    F("terminal-timing", "%s returned while byte %d was in flight, the program finishes after %d bytes" % (o["name"], o["byte"], k))
                    return out
        j += 1
    # everything the model prescribes for fully consumed bytes must have happened
    if not any(o["kind"] == "term" for o in obs):
        for e in mev[j:]:
            if e["opt"]:
                continue
            if e["k"] < consumed:
                F("event-missing", "procedural reading prescribes %s %s after %d bytes; parser consumed %d bytes without it (parser events: %s)" % (
                    e["kind"], e["name"], e["k"], consumed, [(o["kind"], o["name"], o["byte"]) for o in obs]))
                return out
            if e["kind"] == "term" and e["name"] == "FAIL" and e["k"] < len(data):
                F("fail-missing", "procedural reading fails at byte %d; parser consumed %d bytes without FAIL" % (e["k"], consumed))
                return out
    return out


def _check_f1_extras(spec, data, canon, flags, m, obs, out, F):
    # DONE must be immediate when the program ends with a match and strict-done is off
    if m.terminal and m.terminal[0] == "DONE" and m.finished_clean and not flags["STRICT_DONE_TOKEN_GENERATION"] \
            and spec["tail"]["kind"] == "done" and spec["items"] and spec["items"][-1]["t"] in ("lit", "fixed") \
            and m.terminal[1] <= len(data):
        t = [o for o in obs if o["kind"] == "term"]
        if not t or t[0]["byte"] != m.terminal[1] - 1:
            F("done-not-immediate", "program ends with the match of byte %d; DONE expected from that call, got %s" % (
                m.terminal[1] - 1, [(x["name"], x["byte"]) for x in t]))
    # final outputs when the parser stopped on a terminal code or at end of input without pending work
    if not m.taint and canon.steps:
        last = canon.steps[canon.terminal_at] if canon.terminal_at is not None else canon.steps[-1]
        pend = m.silent_since or (m.terminal is None and m.where is None)
        if m.terminal is not None and m.terminal[0] != "FAIL" and canon.terminal_at is not None and last.snap != m.snap():
            F("final-outputs", "after %s: model outputs %s, parser outputs %s" % (m.terminal[0], m.snap(), last.snap))
    # out-of-space instants (C03): the (cap+1)-th byte must not be stored; checked through the outputs
    # at every later hook, and explicitly here through string lengths
    for st in canon.steps:
        for o in spec["outputs"]:
            if o["type"] != "STR":
                continue
            mm = [x for x in st.snap.split(";") if x.startswith(o["name"] + "=")]
            if mm:
                cnt = int(mm[0].split("=")[1].split(":")[0])
                if cnt > o["cap"]:
                    F("capacity-exceeded", "%s holds %d bytes, capacity %d" % (o["name"], cnt, o["cap"]), "F1M")
                    return out
    return out


def check_f1_eof(spec, data, canon, flags):
    """end() after every prefix, against the model's EOF expectation."""
    out = []
    if not canon.has_end:
        return out
    n = len(data)
    idx_of_prefix = {}
    for j, st in enumerate(canon.steps):
        if st.i not in idx_of_prefix:
            idx_of_prefix[st.i] = j
    idx_of_prefix[n] = len(canon.steps) if (not canon.steps or canon.steps[-1].cls == "OK") else None
    for i in range(n + 1):
        j = idx_of_prefix.get(i)
        if j is None or j >= len(canon.eofs) or canon.eofs[j] is None:
            continue
        if canon.terminal_at is not None and j > canon.terminal_at:
            break
        m = F1Model(spec, data[:i])
        m.run()
        obs_y = sum(1 for st in canon.steps[:j] if st.cls == "YIELD")
        mod_y = sum(1 for e in m.events if e["kind"] == "yield")
        exp = m.eof_expectation(yields_delivered=(obs_y == mod_y))
        if exp is None:
            continue
        group = canon.eofs[j]
        code = group[-1].code
        evs = [e for c in group for e in c.events]
        if code != exp[0]:
            # a program that is complete except for trailing work may legitimately still say DONE/FAIL differently
            out.append(oracles.V("F1E", "end-result", -1, 0, "end() after %d bytes returned %s, the EOF contract prescribes %s (input %s)" % (
                i, code, exp[0], data[:i].hex())))
            return out
        if isinstance(exp[1], tuple) and exp[1][0] == "NOHANDLER" and any(e[0] in exp[1][1] for e in evs):
            out.append(oracles.V("F1E", "handler-entered-by-eof-during-wait", -1, 0, "end() after %d bytes (inside a wait) fired %s" % (i, [e[0] for e in evs])))
            return out
        if isinstance(exp[1], list):
            want = [(e["name"], e["snap"]) for e in exp[1] if e["kind"] == "hook"]
            got = [(e[0], e[3]) for e in evs]
            # hooks that were still pending between the last byte and EOF may run first
            pend = list(exp[2]) if len(exp) > 2 else []
            while got and pend and len(got) > len(want):
                if got[0][0] == pend[0]:
                    got.pop(0)
                pend.pop(0)
            if not m.taint and want != got:
                out.append(oracles.V("F1E", "end-actions", -1, 0, "end() after %d bytes: actions after `end` must run exactly once: model %s, parser %s" % (i, want, got)))
                return out
    return out


def _mev(mev):
    return [(e["kind"], e["name"], e["k"], "opt" if e["opt"] else "") for e in mev]


def f1_inputs(rng, spec, count):
    """valid sample, truncations, mutations, capacity stress"""
    def sample(it, stress):
        t = it["t"]
        if t == "lit":
            return bytes((b - 32 if it.get("ci") and rng.random() < 0.5 else b) for b in it["bytes"])
        if t == "fixed":
            lo, hi = it["cls"]
            return bytes(rng.randint(lo, hi) for _ in range(it["n"]))
        if t == "field":
            lo, hi = it["cls"]
            n = rng.choice((1, 2, 3)) if not stress else rng.choice((5, 9, 12))
            return bytes(rng.randint(lo, hi) for _ in range(n))
        if t == "wait":
            junk = bytes(rng.choice(LET) for _ in range(rng.choice((0, 1, 3))))
            if rng.random() < 0.4 and len(it["bytes"]) > 1:
                junk += bytes(it["bytes"][:-1])
            return junk + bytes(it["bytes"])
        if t in ("try", "foreach"):
            return b"".join(sample(x, stress) for x in it["body"])
        if t == "opt":
            return b"".join(sample(x, stress) for x in it["body"]) if rng.random() < 0.6 else b""
        if t == "case":
            if it["else"] is not None and rng.random() < 0.3:
                return b""
            cl = rng.choice(it["clauses"])
            return sample(cl["label"], stress) + b"".join(sample(x, stress) for x in cl["body"])
        if t == "loopcase":
            out_b = b""
            for _ in range(rng.choice((0, 1, 2, 4))):
                cl = rng.choice(it["clauses"])
                out_b += sample(cl["label"], stress) + b"".join(sample(x, stress) for x in cl["body"])
            return out_b + sample(it["brk"], stress)
        return b""
    res = []
    for k in range(count):
        stress = k % 3 == 2
        x = b"".join(sample(it, stress) for it in spec["items"])
        r = rng.random()
        if r < 0.25 and x:
            x = x[:rng.randrange(len(x) + 1)]
        elif r < 0.5 and x:
            i = rng.randrange(len(x))
            x = x[:i] + bytes([rng.choice(LET + PUN + [0, 255])]) + x[i + 1:]
        elif r < 0.6:
            x = x + bytes(rng.choice(LET + PUN) for _ in range(rng.choice((1, 2, 5))))
        elif r < 0.7 and x:
            i = rng.randrange(len(x))
            x = x[:i] + bytes([rng.choice(PUN)]) + x[i:]
        res.append(x[:96])
    return res


# =====================================================================================
# F2 lexer
# =====================================================================================

def gen_f2(rng):
    r = rng
    pools = [(97, 104), (48, 57), (105, 112), (113, 122)]
    r.shuffle(pools)
    ncls = r.choice((1, 2, 3))
    classes = pools[:ncls]
    used = set()
    for lo, hi in classes:
        used |= set(range(lo, hi + 1))
    puncts = r.sample([c for c in [ord(x) for x in "()[]{},;:=+-*<>"]], r.choice((1, 2, 3)))
    spaces = [32] + ([10] if r.random() < 0.5 else [])
    kws = []
    lo, hi = classes[0]
    for _ in range(r.choice((0, 1, 2))):
        kw = bytes(r.randint(lo, hi) for _ in range(r.choice((2, 3, 4))))
        if kw not in kws:
            kws.append(kw)
    codes = ["T%d" % i for i in range(ncls)] + ["P%d" % i for i in range(len(puncts))] + ["K%d" % i for i in range(len(kws))]
    capture = r.random() < 0.4
    spec = {"family": "F2", "classes": classes, "puncts": puncts, "spaces": spaces, "kws": [list(k) for k in kws], "codes": codes,
            "capture": capture, "hook": r.random() < 0.4}
    L = ["yieldcode %s;" % ", ".join(codes)]
    if spec["hook"]:
        L.append("hook tok;")
    L += ["", "parser {", "    loop {", "        greedy case {"]
    act = "tok(); " if spec["hook"] else ""
    for i, (lo, hi) in enumerate(classes):
        L.append("            /%s+/ -> { %syield T%d; }" % (cls_text(lo, hi), act, i))
    for i, p in enumerate(puncts):
        L.append("            %s -> { %syield P%d; }" % (esc([p]), act, i))
    for i, kw in enumerate(kws):
        L.append("            prio 1 %s -> { %syield K%d; }" % (esc(kw), act, i))
    L.append('            " " -> {}')
    if len(spaces) > 1:
        L.append('            "\\n" -> {}')
    L += ["        }", "    }", "}"]
    spec["source"] = "\n".join(L) + "\n"
    spec["need"] = ["-fyield-support"]
    return spec


def f2_tokens(spec, data):
    """maximal munch; returns ([(code, end_offset)], fail_at | None)"""
    toks = []
    i = 0
    n = len(data)
    kws = [bytes(k) for k in spec["kws"]]
    while i < n:
        c = data[i]
        if c in spec["spaces"]:
            i += 1
            continue
        if c in spec["puncts"]:
            toks.append(("P%d" % spec["puncts"].index(c), i + 1, False))
            i += 1
            continue
        hit = None
        for ci, (lo, hi) in enumerate(spec["classes"]):
            if lo <= c <= hi:
                hit = ci
                break
        if hit is None:
            return toks, i
        lo, hi = spec["classes"][hit]
        j = i
        while j < n and lo <= data[j] <= hi:
            j += 1
        text = data[i:j]
        code = "T%d" % hit
        if hit == 0 and text in kws:
            code = "K%d" % kws.index(text)
        toks.append((code, j, j == n))   # third: token end needs lookahead that the input does not provide
        i = j
    return toks, None


def check_f2(spec, data, canon, flags):
    out = []
    toks, fail_at = f2_tokens(spec, data)
    obs = []
    term = None
    for st in canon.steps:
        if st.cls == "YIELD":
            obs.append((st.code[len("YIELD_"):], st.pos_after, st.i))
        elif st.cls in ("FAIL", "DONE", "FINISH"):
            term = (st.code, st.pos_after, st.i)
            break
    F = lambda kind, detail: out.append(oracles.V("F2", kind, -1, 0, detail + " input=" + data.hex()))
    for k, (code, pos, byte) in enumerate(obs):
        if k >= len(toks):
            F("extra-token", "parser reported token %d %s at %d, the tokenizer finds only %d tokens" % (k, code, pos, len(toks)))
            return out
        if (code, pos) != (toks[k][0], toks[k][1]):
            F("token-mismatch", "token %d: parser reported %s ending at %d, maximal munch gives %s ending at %d" % (k, code, pos, toks[k][0], toks[k][1]))
            return out
    consumed = term[2] if term else len(data)
    # every token that ends strictly inside the consumed input must have been reported
    for k in range(len(obs), len(toks)):
        code, end, needs_lookahead = toks[k]
        if end < consumed or (end == consumed and term is not None and term[0] == "FAIL" and False):
            F("token-lost", "token %d %s ending at %d was never reported (parser consumed %d bytes, reported %d tokens)" % (k, code, end, consumed, len(obs)))
            return out
    if fail_at is not None:
        if term is None or term[0] != "FAIL":
            F("fail-missing", "byte %d cannot start a token, parser said %s" % (fail_at, term))
        elif term[1] != fail_at:
            F("fail-pointer", "FAIL pointer %d, offending byte %d" % (term[1], fail_at))
    elif term is not None:
        F("unexpected-terminal", "tokenizer accepts the whole input, parser returned %s at %d" % (term[0], term[1]))
    return out


def f2_inputs(rng, spec, count):
    res = []
    kws = [bytes(k) for k in spec["kws"]]
    for _ in range(count):
        parts = []
        for _ in range(rng.choice((1, 2, 4, 7))):
            k = rng.random()
            if k < 0.45:
                lo, hi = rng.choice(spec["classes"])
                parts.append(bytes(rng.randint(lo, hi) for _ in range(rng.choice((1, 1, 2, 4)))))
            elif k < 0.6 and kws:
                kw = rng.choice(kws)
                parts.append(kw + (bytes([kw[0]]) if rng.random() < 0.3 else b""))
                if rng.random() < 0.3:
                    parts[-1] = kw[:-1]
            elif k < 0.8:
                parts.append(bytes([rng.choice(spec["puncts"])]))
            elif k < 0.95:
                parts.append(bytes(rng.choice(spec["spaces"]) for _ in range(rng.choice((1, 2)))))
            else:
                parts.append(bytes([rng.choice((0, 255, 64, 126))]))
        sep = b"" if rng.random() < 0.5 else b" "
        res.append(sep.join(parts)[:64])
    return res


# =====================================================================================
# F3 EOF / data separation
# =====================================================================================

F3_ANY = [("/./", "wild"), ("/[^x]/", "inv"), ("/\\W/", "W"), ("/\\D/", "D"), ("/\\S/", "S"), ("b/./", "bwild")]


def gen_f3(rng):
    r = rng
    shape = r.choice(("records", "sep", "endelse", "tryend", "tryend", "waitend", "waitend", "endopt", "endopt", "yieldend", "yieldend",
                      "trytail", "trytail", "endbreak", "endbreak"))
    spec = {"family": "F3", "shape": shape}
    if shape == "endbreak":
        # a loop that is left through a *conditional* break (or finish) in its `end` clause: end() completes the program
        # only when the condition holds for the bytes seen so far; otherwise the clause's other actions run and it fails
        k = r.choice((0, 1, 2))
        spec["k"] = k
        spec["how"] = r.choice(("break", "break", "finish", "breakelse"))
        lo = r.choice((97, 103, 109))
        spec["lo"] = lo
        leave = {"break": "if n > %d { break lo; }" % k, "finish": "if n > %d { finish; }" % k,
                 "breakelse": "if n > %d { break lo; } else { b = true; }" % k}[spec["how"]]
        L = ["out int{size 2} n = 0;", "out bool b = false;", "hook he;", "", "parser {", "    loop lo {", "        case {",
             "            /[%s-%s]/ -> { n = [n + 1]; }" % (chr(lo), chr(lo + 5)),
             "            end -> { he(); %s }" % leave, "        }", "    }", "}"]
        spec["source"] = "\n".join(L) + "\n"
        spec["need"] = ["-feof-support"]
        return spec
    if shape == "trytail":
        # a try block as the last statement whose body can stop early, with an action-only handler:
        # end() in the accept state inside the try must say DONE, not run the handler
        pre = [r.choice(LET)]
        a = [r.choice(LET), r.choice(DIG)]
        spec["pre"], spec["a"] = pre, a
        spec["tailkind"] = r.choice(("optional", "plus"))
        body = ('%s; optional { "#"; }' % esc(a)) if spec["tailkind"] == "optional" else ('%s; /\\d+/;' % esc(a))
        L = ["out int{size 2} k = 0;", "finishcode BAD;", "", "parser {", "    %s;" % esc(pre), "    try {", "        " + body, "    }",
             "    catch (nomatch) {", "        k = 1;", "        finish BAD;", "    }", "}"]
        spec["source"] = "\n".join(L) + "\n"
        spec["need"] = ["-feof-support"]
        return spec
    if shape == "yieldend":
        # a yield immediately followed by `wait end` or by a wildcard: end() right after the yield code
        lit = [r.choice(LET)] + [r.choice(LET) for _ in range(r.choice((0, 1, 2)))]
        spec["lit"] = lit
        spec["after"] = r.choice(("waitend", "wild", "inv"))
        nxt = {"waitend": "wait end;", "wild": "/./;", "inv": "/[^x]/;"}[spec["after"]]
        L = ["out int{size 2} n = 0;", "yieldcode GOT;", "", "parser {", "    %s;" % esc(lit), "    yield GOT;", "    " + nxt, "    n = 3;", "}"]
        spec["source"] = "\n".join(L) + "\n"
        spec["need"] = ["-feof-support", "-fyield-support"]
        return spec
    if shape == "endopt":
        # an `end` pattern followed by something that may match nothing: the accept state still has live transitions
        pre = [r.choice(LET)] + [r.choice(LET) for _ in range(r.choice((0, 1)))]
        spec["pre"] = pre
        spec["tailkind"] = r.choice(("optional", "star"))
        tail = 'optional { "#"; }' if spec["tailkind"] == "optional" else "/#*/;"
        L = ["out int{size 2} n = 0;", "hook he;", "", "parser {", "    %s;" % esc(pre), "    case {", "        end -> { n = 1; he(); }",
             '        "\\n" -> { n = 2; }', "    }", "    " + tail, "}"]
        spec["source"] = "\n".join(L) + "\n"
        spec["need"] = ["-feof-support"]
        return spec
    if shape in ("tryend", "waitend"):
        lit = [r.choice(LET)] + [r.choice(LET + DIG) for _ in range(r.choice((1, 2, 3)))]
        spec["lit"] = lit
        if shape == "tryend":
            L = ["out int{size 2} n = 0;", "hook ht;", "hook he;", "hook hd;", "", "parser {", "    try {", "        %s;" % esc(lit), "        n = 1;", "        ht();", "    }",
                 "    catch (nomatch) {", "        case {", "            end -> { n = 2; he(); }", "            /./ -> { n = 3; hd(); }", "        }", "    }", "}"]
        else:
            L = ["out int{size 2} n = 0;", "hook ht;", "hook hw;", "", "parser {", "    try {", "        %s;" % esc(lit), "        n = 1;", "        ht();", "    }",
                 "    catch (nomatch) {", "        wait end;", "        n = 2;", "        hw();", "    }", "}"]
        spec["source"] = "\n".join(L) + "\n"
        spec["need"] = ["-feof-support"]
        return spec
    if shape == "records":
        rec = [r.choice(LET)] + [r.choice(LET + DIG) for _ in range(r.choice((0, 1, 2)))]
        code = r.choice((None, "EOFC"))
        spec.update({"rec": rec, "code": code})
        L = ["out bool ok = false;", "out int n = 0;", "hook h;", "finishcode EOFC;", "", "parser {", "    loop {", "        case {",
             "            %s -> { n = [n + 1]; h(); }" % esc(rec),
             "            end -> { ok = true; %s }" % ("finish EOFC;" if code else "finish;"),
             "        }", "    }", "}"]
    elif shape == "sep":
        pat, kind = r.choice(F3_ANY)
        pre = [r.choice(LET)]
        spec.update({"pat": pat, "kind": kind, "pre": pre})
        L = ["out bool ok = false;", "hook a;", "hook done;", "", "parser {", "    %s;" % esc(pre), "    %s;" % pat, "    a();", "    end;",
             "    ok = true;", "    done();", "}"]
    else:
        pre = [r.choice(LET)]
        spec.update({"pre": pre})
        L = ["hook ha;", "hook hb;", "", "parser {", "    %s;" % esc(pre), "    case {", "        end -> { ha(); }", "        else -> { hb(); }", "    }", "}"]
    spec["source"] = "\n".join(L) + "\n"
    spec["need"] = ["-feof-support"]
    return spec


def f3_inputs(rng, spec, count):
    res = []
    if spec["shape"] == "endbreak":
        lo = spec["lo"]
        return [b"", bytes([lo]), bytes([lo, lo + 1]), bytes([lo + 2, lo, lo + 5, lo + 1]), bytes([lo, 33]), bytes([lo, lo, lo, lo, lo + 3])]
    if spec["shape"] == "trytail":
        p_, a_ = bytes(spec["pre"]), bytes(spec["a"])
        t = b"#" if spec["tailkind"] == "optional" else b"42"
        return [p_ + a_, p_ + a_ + t, p_ + a_ + t[:1], p_ + a_[:1], p_, p_ + a_ + b"z", b""]
    if spec["shape"] == "yieldend":
        lit = bytes(spec["lit"])
        return [lit, lit + b"q", lit + b"qq", lit[:-1], b"", lit + b"\xff"]
    if spec["shape"] == "endopt":
        pre = bytes(spec["pre"])
        return [pre, pre + b"\n", pre + b"\n#", pre[:1] if len(pre) > 1 else b"", pre + b"x", pre + b"\n##"]
    if spec["shape"] in ("tryend", "waitend"):
        lit = bytes(spec["lit"])
        res = [lit, lit[:-1], lit[:1], b"", lit[:-1] + b"\xff", lit[:1] + b"zz", lit + b"q", b"\xff", lit[:-1] + bytes([lit[-1] ^ 1]) + b"ab"]
        return res
    if spec["shape"] == "records":
        rec = bytes(spec["rec"])
        for _ in range(count):
            k = rng.choice((0, 1, 2, 3))
            x = rec * k
            r = rng.random()
            if r < 0.3:
                x += rec[:rng.randrange(len(rec) + 1)]
            elif r < 0.5:
                x += bytes([255])
            elif r < 0.6:
                x += bytes([rng.choice(LET)])
            res.append(x)
    elif spec["shape"] == "sep":
        pre = bytes(spec["pre"])
        for b in (255, 0, ord("x"), ord("a"), ord("5"), 32, 10):
            res.append(pre + bytes([b]))
            res.append(pre + bytes([b, 255]))
        res.append(pre)
        res.append(b"")
    else:
        pre = bytes(spec["pre"])
        res += [pre, pre + b"\xff", pre + b"\xffz", pre + b"q", b""]
    return res[:max(count, 6)]


def f3_matches(kind, b):
    if kind in ("wild", "bwild"):
        return True
    if kind == "inv":
        return b != ord("x")
    c = chr(b)
    if kind == "W":
        return not (c.isalnum() and b < 128 or c == "_")
    if kind == "D":
        return not (48 <= b <= 57)
    if kind == "S":
        return c not in " \t\n\r\x0b\x0c"
    return True


def check_f3(spec, data, canon, flags):
    """end() after every prefix against the closed-form expectation."""
    out = []
    if not canon.has_end:
        return out
    n = len(data)
    idx = {}
    for j, st in enumerate(canon.steps):
        idx.setdefault(st.i, j)
    idx[n] = len(canon.steps) if (not canon.steps or canon.steps[-1].cls == "OK") else None
    F = lambda kind, detail: out.append(oracles.V("F3", kind, -1, 0, detail + " input=" + data.hex()))
    for i in range(n + 1):
        j = idx.get(i)
        if j is None or j >= len(canon.eofs) or canon.eofs[j] is None:
            continue
        if canon.terminal_at is not None and j > canon.terminal_at:
            break
        pre = data[:i]
        group = canon.eofs[j]
        code = group[-1].code
        hooks = [e[0] for c in group for e in c.events]
        snap = group[-1].snap
        if spec["shape"] == "endbreak":
            lo = spec["lo"]
            if all(lo <= c <= lo + 5 for c in pre):
                want = "DONE" if len(pre) > spec["k"] else "FAIL"
                if code != want or hooks[:1] != ["he"]:
                    F("end-clause-conditional-leave", "end() after %d loop bytes (the end clause leaves the loop iff n > %d): code %s hooks %s (expected %s, [he])" % (
                        len(pre), spec["k"], code, hooks, want))
                    return out
            continue
        if spec["shape"] == "trytail":
            p_, a_ = bytes(spec["pre"]), bytes(spec["a"])
            kval = [x.split("=")[1] for x in snap.split(";") if x.startswith("k=")]
            kval = int(kval[0]) if kval else None
            done_points = [p_ + a_, p_ + a_ + b"#"] if spec["tailkind"] == "optional" else [p_ + a_ + b"4", p_ + a_ + b"42"]
            if pre in done_points:
                if code != "DONE" or kval != 0:
                    F("end-in-accept-state-inside-try", "end() after %s (the try body may stop here): code %s k=%s (expected DONE, k=0)" % (pre.hex(), code, kval))
                    return out
            continue
        if spec["shape"] == "yieldend":
            lit = bytes(spec["lit"])
            nval = [x.split("=")[1] for x in snap.split(";") if x.startswith("n=")]
            nval = int(nval[0]) if nval else None
            if pre == lit:
                # end() right after the literal (the yield delivered or still pending): `wait end` completes the
                # program and runs what follows; a wildcard / inverted set never matches end-of-input
                if spec["after"] == "waitend":
                    if code != "DONE" or nval != 3:
                        F("wait-end-after-yield", "end() right after the yield: code %s n=%s (expected DONE, n=3)" % (code, nval))
                        return out
                else:
                    if code != "FAIL" or nval != 0:
                        F("wildcard-matched-eof-after-yield", "end() right after the yield: code %s n=%s (expected FAIL, n=0)" % (code, nval))
                        return out
            elif len(pre) < len(lit) and lit.startswith(pre):
                if code != "FAIL":
                    F("end-inside-literal", "end() inside the leading literal returned %s" % code)
                    return out
            continue
        if spec["shape"] == "endopt":
            p = bytes(spec["pre"])
            nval = [x.split("=")[1] for x in snap.split(";") if x.startswith("n=")]
            nval = int(nval[0]) if nval else None
            if pre == p:
                if code != "DONE" or hooks != ["he"] or nval != 1:
                    F("end-pattern-before-nullable-tail", "end() right after %s: code %s hooks %s n=%s (expected DONE, [he], n=1)" % (p.hex(), code, hooks, nval))
                    return out
            elif pre == p + b"\n":
                if code != "DONE" or hooks or nval != 2:
                    F("end-in-accept-state-with-live-transitions", "end() after the newline clause (the nullable tail may match nothing): code %s hooks %s n=%s (expected DONE, n=2)" % (code, hooks, nval))
                    return out
            elif len(pre) < len(p) and p.startswith(pre):
                if code != "FAIL":
                    F("end-inside-literal", "end() inside the leading literal returned %s" % code)
                    return out
            continue
        if spec["shape"] in ("tryend", "waitend"):
            lit = bytes(spec["lit"])
            nval = [x.split("=")[1] for x in snap.split(";") if x.startswith("n=")]
            nval = int(nval[0]) if nval else None
            if len(pre) < len(lit) and lit.startswith(pre):
                # EOF inside the tried literal is a mismatch: the handler runs and its `end` pattern completes the program
                want_hook = "he" if spec["shape"] == "tryend" else "hw"
                if code != "DONE" or hooks != [want_hook] or nval != 2:
                    F("end-pattern-in-handler", "end() after the strict prefix %s of %s: code %s hooks %s n=%s (expected DONE, [%s], n=2)" % (
                        pre.hex(), lit.hex(), code, hooks, nval, want_hook))
                    return out
            elif pre == lit:
                if code != "DONE" or "he" in hooks or "hd" in hooks or "hw" in hooks or nval != 1:
                    F("end-after-complete-try", "end() after the complete literal: code %s hooks %s n=%s (expected DONE, n=1, no handler hook)" % (code, hooks, nval))
                    return out
            elif spec["shape"] == "waitend" and not lit.startswith(pre[:len(lit)]) and not pre.startswith(lit):
                # a data mismatch entered the handler; `wait end` skips every data byte and completes at EOF
                if code != "DONE" or nval != 2 or hooks.count("hw") != 1:
                    F("wait-end-in-handler", "end() after %s (handler entered by a data mismatch): code %s hooks %s n=%s (expected DONE, hw once, n=2)" % (pre.hex(), code, hooks, nval))
                    return out
            continue
        if spec["shape"] == "records":
            rec = bytes(spec["rec"])
            whole = len(pre) % len(rec) == 0 and pre == rec * (len(pre) // len(rec))
            if whole:
                want = "FINISH_EOFC" if spec["code"] else "DONE"
                if code != want:
                    F("end-at-record-boundary", "end() after %d whole records returned %s, expected %s" % (len(pre) // len(rec), code, want))
                    return out
                if "ok=1" not in snap or ("n=%d" % (len(pre) // len(rec))) not in snap.split(";"):
                    F("end-clause-actions", "after the end clause outputs are %s" % snap)
                    return out
            else:
                good_prefix = (rec * (len(pre) // len(rec) + 1)).startswith(pre)
                if good_prefix and code != "FAIL":
                    F("end-inside-record", "end() inside a record returned %s" % code)
                    return out
        elif spec["shape"] == "sep":
            p = bytes(spec["pre"])
            if len(pre) < len(p) + 1 and p.startswith(pre[:len(p)]):
                if code != "FAIL":
                    F("data-pattern-matched-eof", "end() before %s consumed a byte returned %s (prefix %s)" % (spec["pat"], code, pre.hex()))
                    return out
                if hooks:
                    F("hook-on-eof-before-pattern", "hooks %s fired" % hooks)
                    return out
            elif len(pre) == len(p) + 1 and pre[:len(p)] == p and f3_matches(spec["kind"], pre[-1]):
                if code != "DONE" or hooks.count("done") != 1 or "ok=1" not in snap:
                    F("end-after-data-byte", "%s matched data byte %02x, then end(): code %s hooks %s outputs %s (expected DONE, a/done once, ok)" % (
                        spec["pat"], pre[-1], code, hooks, snap))
                    return out
        else:
            p = bytes(spec["pre"])
            if pre == p:
                if code != "DONE" or hooks != ["ha"]:
                    F("end-clause-selection", "end() at the case: code %s hooks %s (expected DONE, [ha])" % (code, hooks))
                    return out
    # feed side: the data byte 0xFF must take the else clause, never the end clause
    if spec["shape"] == "endelse":
        p = bytes(spec["pre"])
        if len(data) > len(p) and data[:len(p)] == p:
            fired = [e[0] for st in canon.steps for e in st.events]
            if "ha" in fired:
                F("end-matched-data-byte", "the `end` clause ran on data byte %02x" % data[len(p)])
    if spec["shape"] == "records":
        rec = bytes(spec["rec"])
        fired = sum(1 for st in canon.steps for e in st.events if e[0] == "h")
        k = 0
        while data[k * len(rec):(k + 1) * len(rec)] == rec:
            k += 1
        if canon.terminal_at is None or canon.steps[canon.terminal_at].i >= k * len(rec):
            if fired < k - 1 or fired > k:
                F("record-hook-count", "%d whole records, hook fired %d times" % (k, fired))
    return out


# =====================================================================================
# plumbing: units, engine callback, check entry
# =====================================================================================

GEN = {"F1": gen_f1, "F2": gen_f2, "F3": gen_f3}   # F5 is defined at the end of the module


def check_canon(fam, data, canon, flags):
    """called by the engine after each canonical pass of a family unit"""
    name = fam["family"]
    if name == "F1":
        return check_f1(fam, data, canon, flags) + check_f1_eof(fam, data, canon, flags)
    if name == "F2":
        return check_f2(fam, data, canon, flags)
    if name == "F3":
        return check_f3(fam, data, canon, flags)
    if name == "F5":
        return check_f5(fam, data, canon, flags)
    if name == "F6":
        return check_f6(fam, data, canon, flags)
    if name == "F8":
        return check_f8(fam, data, canon, flags)
    if name == "F9":
        return check_f9(fam, data, canon, flags)
    return []


FAMILY_TIER = {"quick": 360, "thorough": 4000}
FAMILY_SCALE = {"C04": 0.25, "C02": 0.4}


def family_tasks(prop, tier, root):
    n = int(FAMILY_TIER[tier] * FAMILY_SCALE.get(prop, 1.0))
    tasks = []
    mix = {"C10": ("F1", "F1", "F2", "F2", "F5"), "C17": ("F1", "F3", "F3", "F1"), "C03": ("F1", "F6", "F5", "F6"),
           "C04": ("F5",), "C02": ("F5", "F1")}[prop]
    plan = {"n_inputs": 0, "maxlen": 64, "n_sched": 3, "exhaustive_n": 5, "n_multi": 1, "single_cuts": tier == "thorough",
            "faults": ["cut", "retail", "reloc", "ystop", "eof", "post", "zero"], "want": ["L2", "LAWS"]}
    for i in range(n):
        idx = 500000 + i
        fam = mix[i % len(mix)]
        rng = sched.rng_for(root, "family-" + fam, idx)
        force = None
        if fam == "F1":
            if prop == "C17":
                force = {"tail": rng.choice(("end", "end", "done")), "try": rng.choice(("f4", "nomatch-wait", "none"))}
            elif prop == "C03":
                force = {"try": rng.choice(("oos-finish", "oos-wait", "oos-wait", "none"))}
            spec = gen_f1(rng, force)
            xs = f1_inputs(rng, spec, 10)
        elif fam == "F2":
            spec = gen_f2(rng)
            xs = f2_inputs(rng, spec, 10)
        elif fam == "F5":
            spec = gen_f5(rng)
            xs = f5_inputs(rng, spec, 8)
        elif fam == "F6":
            spec = gen_f6(rng)
            xs = f6_inputs(rng, spec, 8)
        else:
            spec = gen_f3(rng)
            xs = f3_inputs(rng, spec, 8)
        ro = sched.rng_for(root, "family-options", idx)
        f = {"indirect": True} if prop == "C10" else {}
        if prop == "C17":
            f["eof"] = True
        if prop == "C03":
            f["storage"] = idx % 4
        if fam in ("F5", "F1", "F3"):
            # most optimiser-dependent behaviour (actions and yields sharing a transition, short-circuited
            # fall-throughs, eliminated proxy states) only exists at -O3: weight it
            f["O"] = ro.choice((3, 3, 3, 2, 1, 0))
        argv = workload.sample_argv(ro, need=spec["need"], force=f)
        canaries = {o["name"]: 90 for o in spec.get("outputs", []) if o.get("canary")}
        unit = {"label": "%s:%d" % (fam, idx), "source": spec["source"], "argv": argv, "must_inputs": [x.hex() for x in xs],
                "family": {k: v for k, v in spec.items() if k != "source"}, "canaries": canaries}
        uplan = plan
        if fam == "F6":
            uplan = dict(plan, maxlen=320, n_sched=2, single_cuts=False, exhaustive_n=3)
        tasks.append(("sim", root, idx, unit, uplan))
    # F7: frame programs with foreach statements (do-actions once per consumed byte: counters, $last appends, yields);
    # separate index range and stream, so that the units above are the same as before this family existed
    if prop in ("C10", "C03", "C02"):
        for j in range(n // 4):
            idx = 560000 + j
            rng = sched.rng_for(root, "family-F7", idx)
            force = {"foreach": True, "yield": rng.random() < 0.6}
            if prop == "C03":
                force["try"] = rng.choice(("oos-finish", "oos-wait", "none"))
            spec = gen_f1(rng, force)
            xs = f1_inputs(rng, spec, 10)
            ro = sched.rng_for(root, "family-options", idx)
            f = {"indirect": True} if prop == "C10" else {}
            if prop == "C03":
                f["storage"] = idx % 4
            f["O"] = ro.choice((3, 3, 3, 2, 1, 0))
            argv = workload.sample_argv(ro, need=spec["need"], force=f)
            canaries = {o["name"]: 90 for o in spec.get("outputs", []) if o.get("canary")}
            unit = {"label": "F7:%d" % idx, "source": spec["source"], "argv": argv, "must_inputs": [x.hex() for x in xs],
                    "family": {k: v for k, v in spec.items() if k != "source"}, "canaries": canaries}
            tasks.append(("sim", root, idx, unit, plan))
        # F8: key=value records, capacity-limited fields, out-of-space resync; appends sharing a transition with hooks
        for j in range(n // 4):
            idx = 580000 + j
            rng = sched.rng_for(root, "family-F8", idx)
            spec = gen_f8(rng)
            xs = f8_inputs(rng, spec, 10)
            ro = sched.rng_for(root, "family-options", idx)
            f = {"indirect": True} if prop == "C10" else {}
            if prop == "C03":
                f["storage"] = idx % 4
            f["O"] = ro.choice((3, 3, 3, 2, 1, 0))
            argv = workload.sample_argv(ro, need=spec["need"], force=f)
            unit = {"label": "F8:%d" % idx, "source": spec["source"], "argv": argv, "must_inputs": [x.hex() for x in xs],
                    "family": {k: v for k, v in spec.items() if k != "source"}, "canaries": {"zc0": 90, "zc1": 90}}
            tasks.append(("sim", root, idx, unit, plan))
    # F9: string constants and computed bytes (assignments, defaults, char-appends) against a dict-of-bytes model
    if prop in ("C03", "C02"):
        for j in range(n // 3 if prop == "C03" else n // 6):
            idx = 590000 + j
            rng = sched.rng_for(root, "family-F9", idx)
            spec = gen_f9(rng)
            xs = f9_inputs(rng, spec, 6)
            ro = sched.rng_for(root, "family-options", idx)
            f = {"storage": idx % 4}
            f["O"] = ro.choice((3, 2, 1, 0))
            argv = workload.sample_argv(ro, need=spec["need"], force=f)
            fam = {k: v for k, v in spec.items() if k != "source"}
            for s9 in fam["strs"]:
                if isinstance(s9["default"], bytes):
                    s9["default"] = s9["default"].hex()
            unit = {"label": "F9:%d" % idx, "source": spec["source"], "argv": argv, "must_inputs": [x.hex() for x in xs],
                    "family": fam, "canaries": {"zc0": 90, "zc1": 90}}
            tasks.append(("sim", root, idx, unit, plan))
    return tasks


def run(prop, tier, root, tree, workdir, workers):
    from . import checks
    return checks.run_pool(family_tasks(prop, tier, root), workdir, tree, workers)


# =====================================================================================
# F5 "yao": yield + append + out-of-space redirect on one transition (DESIGN 8.1 item 7)
# =====================================================================================

def gen_f5(rng):
    r = rng
    lo, hi = r.choice(((97, 102), (117, 122), (48, 57)))
    c1 = r.choice((1, 1, 2, 3))
    c2 = r.choice((1, 2, 4))
    variant = r.choice(("A", "A", "B", "C"))
    pre_hook = r.random() < 0.4
    h2 = r.random() < 0.4
    spec = {"family": "F5", "cls": [lo, hi], "c1": c1, "c2": c2, "variant": variant, "pre_hook": pre_hook, "h2": h2}
    L = ["out str[%d] s0;" % (c1 + 1), "out int{size 1} zc0 = 90;", "out unterminated str[%d] s1;" % c2, "out int{size 1} zc1 = 90;",
         "hook h0;", "hook h2;", "yieldcode YA;", "", "parser {", "    loop {", "        try {",
         "            s0 += /%s/;" % cls_text(lo, hi)]
    if pre_hook:
        L.append("            h0();")
    L += ["            yield YA;", "        }", "        catch (outofspace) {", "            delete s0;"]
    if variant == "B":
        L.append("            s1 += /%s/;" % cls_text(lo, hi))
    elif variant == "C":
        L.append("            s1 += [$last];")
    if h2:
        L.append("            h2();")
    L += ["        }", "    }", "}"]
    spec["source"] = "\n".join(L) + "\n"
    spec["need"] = ["-fyield-support"]
    spec["outputs"] = [{"name": "s0", "type": "STR"}, {"name": "zc0", "type": "INT", "canary": True}, {"name": "s1", "type": "STR"},
                       {"name": "zc1", "type": "INT", "canary": True}]
    return spec


def f5_model(spec, data):
    """returns (events, terminal, taint): the procedural reading of the loop"""
    lo, hi = spec["cls"]
    s0, s1 = bytearray(), bytearray()
    ev = []
    snap = lambda: "s0=%d:%s;zc0=90;s1=%d:%s;zc1=90" % (len(s0), bytes(s0).hex(), len(s1), bytes(s1).hex())
    pos = 0
    terminal = None

    def emit(kind, name, k):
        ev.append({"kind": kind, "name": name, "k": k, "snap": snap(), "opt": False, "taint": False})

    while pos < len(data):
        b = data[pos]
        if not (lo <= b <= hi):
            terminal = ("FAIL", pos)
            break
        if len(s0) >= spec["c1"]:
            # out of space: the byte is not stored, the handler runs with the byte still in flight
            s0 = bytearray()
            if spec["variant"] == "B":
                if len(s1) >= spec["c2"]:
                    terminal = ("FAIL", pos)       # out of space inside the handler: no enclosing handler
                    break
                s1.append(b)
                pos += 1
                if spec["h2"]:
                    emit("hook", "h2", pos)
                continue                            # loop again: this byte produced no yield
            if spec["variant"] == "C":
                if len(s1) >= spec["c2"]:
                    terminal = ("FAIL", pos)
                    break
                s1.append(b)                        # char append of $last: the byte in flight, not consumed
            if spec["h2"]:
                emit("hook", "h2", pos)
            # the handler consumed nothing: the loop re-dispatches the same byte, which now fits
        s0.append(b)
        pos += 1
        if spec["pre_hook"]:
            emit("hook", "h0", pos)
        emit("yield", "YA", pos)
    # events produced after the last consumed byte may still be pending when input stops
    for e in ev:
        if e["k"] == len(data) and terminal is None:
            e["opt"] = True
    return ev, terminal, False


def check_f5(spec, data, canon, flags):
    ev, terminal, taint = f5_model(spec, data)
    out, obs = compare_model_trace(ev, terminal, taint, canon, data, flags, "F5")
    return out


def f5_inputs(rng, spec, count):
    lo, hi = spec["cls"]
    res = []
    for k in (1, spec["c1"], spec["c1"] + 1, spec["c1"] * 2 + 1, spec["c1"] + spec["c2"] + 2, 12):
        res.append(bytes(rng.randint(lo, hi) for _ in range(k)))
    res.append(bytes(rng.randint(lo, hi) for _ in range(spec["c1"] + 1)) + b"!" + bytes([lo]))
    res.append(b"!")
    return res[:max(count, 8)]


# =====================================================================================
# F6 "fill": capacity boundaries at integer-width edges (counter widths, terminators)
# =====================================================================================

F6_SIZES = (2, 3, 5, 127, 128, 129, 255, 256, 257, 300)


def gen_f6(rng):
    r = rng
    size = r.choice(F6_SIZES)
    unterm = r.random() < 0.5
    variant = r.choice(("match", "match", "char", "plus"))
    cap = size if unterm else size - 1
    spec = {"family": "F6", "size": size, "unterm": unterm, "cap": cap, "variant": variant}
    L = ["out %sstr[%d] s0;" % ("unterminated " if unterm else "", size), "out int{size 1} zc0 = 90;", "hook hfull;", "finishcode TOO;", "",
         "parser {"]
    if variant == "plus":
        L += ["    try {", "        s0 += /[a-z]+/;", "        \";\";", "    }", "    catch (outofspace) {", "        hfull();", "        finish TOO;", "    }"]
    else:
        L += ["    loop {", "        try {"]
        L += ["            s0 += /[a-z]/;"] if variant == "match" else ["            /[a-z]/;", "            s0 += [$last];"]
        L += ["        }", "        catch (outofspace) {", "            hfull();", "            finish TOO;", "        }", "    }"]
    L.append("}")
    spec["source"] = "\n".join(L) + "\n"
    spec["need"] = []
    spec["outputs"] = [{"name": "s0", "type": "STR"}, {"name": "zc0", "type": "INT", "canary": True}]
    return spec


def check_f6(spec, data, canon, flags):
    cap = spec["cap"]
    ev = []
    terminal = None
    snapf = lambda bs: "s0=%d:%s;zc0=90" % (len(bs), bytes(bs).hex())
    stored = bytearray()
    pos = 0
    while pos < len(data):
        b = data[pos]
        if not (97 <= b <= 122):
            if spec["variant"] == "plus" and b == 59 and stored:
                terminal = ("DONE", pos + 1)
            else:
                terminal = ("FAIL", pos)
            break
        if len(stored) >= cap:
            ev.append({"kind": "hook", "name": "hfull", "k": pos + (1 if spec["variant"] == "char" else 0), "snap": snapf(stored), "opt": False, "taint": False})
            terminal = ("FINISH_TOO", pos + (1 if spec["variant"] == "char" else 0))
            break
        stored.append(b)
        pos += 1
    out, obs = compare_model_trace(ev, terminal, False, canon, data, flags, "F6")
    if out or getattr(canon, "coarse", False):
        return out
    # the outputs after every consumed byte: length counter == bytes stored, contents intact
    exp = bytearray()
    for st in canon.steps:
        if st.cls != "OK":
            break
        if st.i < len(data) and 97 <= data[st.i] <= 122 and len(exp) < cap:
            exp.append(data[st.i])
        if st.snap != snapf(exp):
            out.append(oracles.V("F6", "length-or-contents", -1, 0, "after byte %d (capacity %d): model %s... parser %s..." % (
                st.i, cap, snapf(exp)[:40], st.snap[:40])))
            return out
    return out


def f6_inputs(rng, spec, count):
    cap = spec["cap"]
    res = []
    for n in (cap - 1, cap, cap + 1, cap + 3):
        if n >= 0:
            x = bytes(rng.choice(LET) for _ in range(n))
            res.append(x + (b";" if spec["variant"] == "plus" else b""))
    res.append(bytes(rng.choice(LET) for _ in range(min(cap, 3))) + b"!")
    return res


# =====================================================================================
# F8 "kv": key=value records with capacity-limited fields, an out-of-space resync handler,
# and appends that share their transition with hooks / counters (foreach do-actions)
# =====================================================================================

F8_PART = ("match", "fe-app", "fe-app-hook", "fe-hook-app", "fe-inc-app")


def gen_f8(rng):
    r = rng
    ksz = r.choice((2, 3, 4, 6))
    vsz = r.choice((2, 3, 5))
    kun = r.random() < 0.25
    vun = r.random() < 0.25
    kpart = r.choice(F8_PART)
    vpart = r.choice(F8_PART)
    use_yield = r.random() < 0.4
    handler = r.choice(("wait", "wait", "wait-del", "finish"))
    term = r.choice((59, 10, 44))         # ; \n ,
    spec = {"family": "F8", "kcap": ksz if kun else ksz - 1, "vcap": vsz if vun else vsz - 1, "kpart": kpart, "vpart": vpart,
            "yield": use_yield, "handler": handler, "term": term, "pre": r.random() < 0.3}
    L = ["out %sstr[%d] key;" % ("unterminated " if kun else "", ksz), "out int{size 1} zc0 = 90;",
         "out %sstr[%d] val;" % ("unterminated " if vun else "", vsz), "out int{size 1} zc1 = 90;", "out int n0 = 0;",
         "hook pair;", "hook kc;", "hook over;", "finishcode TOO;"]
    if use_yield:
        L.append("yieldcode YP;")

    def part(kind, dest, cls):
        if kind == "match":
            return ["%s += /%s+/;" % (dest, cls)]
        acts = {"fe-app": ["%s += [$last];" % dest], "fe-app-hook": ["%s += [$last];" % dest, "kc();"],
                "fe-hook-app": ["kc();", "%s += [$last];" % dest], "fe-inc-app": ["n0 = [n0 + 1];", "%s += [$last];" % dest]}[kind]
        return ["foreach {", "    /%s+/;" % cls, "} do {"] + ["    " + a for a in acts] + ["}"]

    body = []
    if spec["pre"]:
        body.append('"+";')
    body += part(kpart, "key", "[a-z]") + ['"=";'] + part(vpart, "val", "[0-9]") + [esc([term]) + ";", "pair();"]
    if use_yield:
        body.append("yield YP;")
    body += ["delete key;", "delete val;"]
    L += ["", "parser {", "    loop {", "        try {"] + ["            " + x for x in body] + ["        }", "        catch (outofspace) {", "            over();"]
    if handler == "finish":
        L.append("            finish TOO;")
    else:
        L.append("            wait %s;" % esc([term]))
        if handler == "wait-del":
            L += ["            delete key;", "            delete val;"]
    L += ["        }", "    }", "}"]
    spec["source"] = "\n".join(L) + "\n"
    spec["need"] = ["-fyield-support"] if use_yield else []
    spec["outputs"] = [{"name": "key", "type": "STR"}, {"name": "zc0", "type": "INT", "canary": True}, {"name": "val", "type": "STR"},
                       {"name": "zc1", "type": "INT", "canary": True}, {"name": "n0", "type": "INT"}]
    return spec


def f8_model(spec, data):
    """procedural reading; returns (events, terminal)"""
    key, val = bytearray(), bytearray()
    st = {"n0": 0}
    ev = []
    snap = lambda: "key=%d:%s;zc0=90;val=%d:%s;zc1=90;n0=%d" % (len(key), bytes(key).hex(), len(val), bytes(val).hex(), st["n0"])
    emit = lambda kind, name, k, opt=False: ev.append({"kind": kind, "name": name, "k": k, "snap": snap(), "opt": opt, "taint": False})
    term = spec["term"]
    pos = 0
    n = len(data)
    mode = "start"          # start | pre | key | val | skip
    keep_on_resync = spec["handler"] == "wait"

    class Oos(Exception):
        pass

    def step(kind, dest, cap, b, k):
        """one field byte: the do-actions (or the match append) of that byte, in program order"""
        if kind == "match" or kind == "fe-app":
            if len(dest) >= cap:
                raise Oos()
            dest.append(b)
        elif kind == "fe-app-hook":
            if len(dest) >= cap:
                raise Oos()
            dest.append(b)
            emit("hook", "kc", k)
        elif kind == "fe-hook-app":
            emit("hook", "kc", k)
            if len(dest) >= cap:
                raise Oos()
            dest.append(b)
        elif kind == "fe-inc-app":
            st["n0"] += 1
            if len(dest) >= cap:
                raise Oos()
            dest.append(b)

    terminal = None
    mode = "pre" if spec["pre"] else "key0"
    while pos < n:
        b = data[pos]
        try:
            if mode == "pre":
                if b != 43:
                    terminal = ("FAIL", pos)
                    break
                pos += 1
                mode = "key0"
            elif mode in ("key0", "key"):
                if 97 <= b <= 122:
                    step(spec["kpart"], key, spec["kcap"], b, pos + 1)
                    pos += 1
                    mode = "key"
                elif mode == "key" and b == 61:
                    pos += 1
                    mode = "val0"
                else:
                    terminal = ("FAIL", pos)
                    break
            elif mode in ("val0", "val"):
                if 48 <= b <= 57:
                    step(spec["vpart"], val, spec["vcap"], b, pos + 1)
                    pos += 1
                    mode = "val"
                elif mode == "val" and b == term:
                    pos += 1
                    emit("hook", "pair", pos)
                    if spec["yield"]:
                        emit("yield", "YP", pos)
                    del key[:]
                    del val[:]
                    mode = "pre" if spec["pre"] else "key0"
                else:
                    terminal = ("FAIL", pos)
                    break
            elif mode == "skip":
                pos += 1
                if b == term:
                    if spec["handler"] == "wait-del":
                        del key[:]
                        del val[:]
                    mode = "pre" if spec["pre"] else "key0"
        except Oos:
            # the byte that does not fit is not consumed by the try body; the handler starts with it
            emit("hook", "over", pos)
            if spec["handler"] == "finish":
                terminal = ("FINISH_TOO", pos)
                break
            mode = "skip"
    return ev, terminal


def check_f8(spec, data, canon, flags):
    ev, terminal = f8_model(spec, data)
    out, obs = compare_model_trace(ev, terminal, False, canon, data, flags, "F8")
    if out or getattr(canon, "coarse", False):
        return out
    # capacities at every step
    for st in canon.steps:
        for name, cap in (("key", spec["kcap"]), ("val", spec["vcap"])):
            mm = [x for x in st.snap.split(";") if x.startswith(name + "=")]
            if mm and int(mm[0].split("=")[1].split(":")[0]) > cap:
                out.append(oracles.V("F8", "capacity-exceeded", -1, 0, "%s holds more than %d bytes: %s" % (name, cap, mm[0])))
                return out
    return out


def f8_inputs(rng, spec, count):
    term = bytes([spec["term"]])
    pre = b"+" if spec["pre"] else b""

    def rec(klen, vlen):
        return pre + bytes(rng.choice(LET) for _ in range(klen)) + b"=" + bytes(rng.choice(DIG) for _ in range(vlen)) + term
    kc, vc = spec["kcap"], spec["vcap"]
    res = []
    for k in range(count):
        recs = []
        for _ in range(rng.choice((1, 2, 3, 4))):
            kind = rng.random()
            if kind < 0.35:
                recs.append(rec(rng.randint(1, max(1, kc)), rng.randint(1, max(1, vc))))
            elif kind < 0.6:
                recs.append(rec(kc + rng.choice((1, 1, 2, 4)), rng.randint(1, max(1, vc))))      # key overflows (by exactly one: the
            elif kind < 0.85:                                                                  # byte after it is the separator)
                recs.append(rec(rng.randint(1, max(1, kc)), vc + rng.choice((1, 1, 2, 3))))
            else:
                recs.append(rec(kc, vc))
        x = b"".join(recs)
        r = rng.random()
        if r < 0.15 and x:
            x = x[:rng.randrange(len(x) + 1)]
        elif r < 0.3 and x:
            i = rng.randrange(len(x))
            x = x[:i] + bytes([rng.choice(LET + PUN + DIG)]) + x[i + 1:]
        res.append(x[:96])
    return res


# =====================================================================================
# F9 "const": string constants and computed bytes - assignments and defaults with escapes, NUL bytes, control bytes
# followed by hex-digit characters, the same constant copied into terminated and unterminated strings, constants
# that exactly fill / do not fit a capacity, char-appends of computed values.  Model: a dict of byte strings.
# Bytes >= 0x80 written as "\xNN" in text constants are kept out of the *model* (what they denote - one byte or a
# UTF-8 sequence - is a question of literal spelling, C15, not decided here); binary defaults ("..."b) carry them.
# =====================================================================================

def _f9_text_const(r, n):
    """(source spelling, bytes) of a text constant of n bytes drawn from spellings whose meaning is unambiguous"""
    src, bs = "", bytearray()
    while len(bs) < n:
        k = r.randrange(10)
        if k < 4:
            b = r.choice(LET + DIG)
            src += chr(b)
        elif k == 4:
            b = r.choice((65, 70, 97, 102, 48, 57))       # hex-digit characters, often right behind an escape
            src += chr(b)
        elif k == 5:
            e, b = r.choice((("\\n", 10), ("\\t", 9), ("\\r", 13), ("\\b", 8), ("\\0", 0)))
            src += e
        elif k == 6:
            b = r.choice((1, 7, 0x1f, 0x7f, 0x0a, 0x00, 0x10))
            src += "\\x%02x" % b
        elif k == 7:
            e, b = r.choice((('\\"', 34), ("\\\\", 92)))
            src += e
        elif k == 8:
            b = r.choice((32, 37, 63, 39, 123))           # blank % ? ' {
            src += chr(b)
        else:
            b = r.choice(PUN)
            src += chr(b)
        bs.append(b)
    return '"' + src + '"', bytes(bs)


def _f9_bin_const(r, n):
    bs = bytes(r.choice((0, 255, 128, 10, 65, 0x7f, r.randrange(256))) for _ in range(n))
    return '"' + " ".join("%02x" % b for b in bs) + '"b', bs


def gen_f9(rng):
    r = rng
    strs = []
    for i in range(2):
        size = r.choice((2, 3, 4, 5, 6, 8))
        unterm = (r.random() < 0.5) if i == 0 else (not strs[0]["unterm"] if r.random() < 0.7 else r.random() < 0.5)
        cap = size if unterm else size - 1
        strs.append({"name": "s%d" % i, "size": size, "unterm": unterm, "cap": cap, "default": None})
    mincap = min(s["cap"] for s in strs)
    maxcap = max(s["cap"] for s in strs)
    # constants: lengths at the capacity edges of both strings
    consts = []
    for n in {0, 1, mincap, maxcap, r.randrange(0, maxcap + 1)}:
        consts.append(_f9_text_const(r, n))
    toolong = r.random() < 0.12
    L = []
    for s in strs:
        d = "out %sstr[%d] %s" % ("unterminated " if s["unterm"] else "", s["size"], s["name"])
        k = r.random()
        if k < 0.3:
            n = r.choice((0, 1, s["cap"], s["cap"], r.randrange(0, s["cap"] + 1)))
            if toolong and s is strs[0]:
                n = s["cap"] + r.choice((1, 1, 2, 4))
            src, bs = _f9_text_const(r, n)
            s["default"] = bs
            d += " = " + src
        elif k < 0.55:
            n = r.choice((1, s["cap"], r.randrange(0, s["cap"] + 1)))
            if toolong and s is strs[0]:
                n = s["cap"] + r.choice((1, 2))
            src, bs = _f9_bin_const(r, n)
            s["default"] = bs
            d += " = " + src
        L.append(d + ";")
        L.append("out int{size 1} zc%s = 90;" % s["name"][1:])
    L += ["hook h0;", "hook hfull;", "finishcode TOO;", "", "parser {", "    loop {", "        try {", "            case {"]
    cmds = {}
    keys = list("abcdefghijklm")
    r.shuffle(keys)
    ki = 0
    # the same constant into both strings (where it fits), other constants into one of them
    for ci, (src, bs) in enumerate(consts):
        targets = [s for s in strs if len(bs) <= s["cap"]]
        if ci > 0 and len(targets) > 1 and r.random() < 0.4:
            targets = [r.choice(targets)]
        for s in targets:
            key = keys[ki]
            ki += 1
            cmds[key] = ("assign", s["name"], bs)
            L.append('                "%s" -> { %s = %s; h0(); }' % (key, s["name"], src))
    for s in strs:
        key = keys[ki]
        ki += 1
        v = r.choice((0, 65, 255, 128, 10, 127))
        cmds[key] = ("appc", s["name"], v)
        L.append('                "%s" -> { %s += [%d]; h0(); }' % (key, s["name"], v))
    key = keys[ki]
    ki += 1
    tgt = r.choice(strs)["name"]
    cmds[key] = ("applast", tgt, None)
    L.append('                "%s" -> { /./; %s += [$last]; h0(); }' % (key, tgt))
    key = keys[ki]
    ki += 1
    tgt = r.choice(strs)["name"]
    cmds[key] = ("delete", tgt, None)
    L.append('                "%s" -> { delete %s; h0(); }' % (key, tgt))
    L += ["            }", "        }", "        catch (outofspace) {", "            hfull();", "            finish TOO;", "        }", "    }", "}"]
    spec = {"family": "F9", "strs": strs, "cmds": {k: [v[0], v[1], (v[2].hex() if isinstance(v[2], bytes) else v[2])] for k, v in cmds.items()},
            "toolong": any(s["default"] is not None and len(s["default"]) > s["cap"] for s in strs), "source": "\n".join(L) + "\n", "need": [],
            "outputs": [{"name": "zc0", "type": "INT", "canary": True}, {"name": "zc1", "type": "INT", "canary": True}]}
    return spec


def _f9_snap(spec, st):
    return ";".join("%s=%d:%s;zc%s=90" % (s["name"], len(st[s["name"]]), bytes(st[s["name"]]).hex(), s["name"][1:]) for s in spec["strs"])


def check_f9(spec, data, canon, flags):
    if spec.get("toolong"):
        # a default that does not fit must be refused at compile time; an accepted program is judged by the memory laws
        # (counter beyond capacity right after start) - no model trace
        return [oracles.V("F9", "oversized-default-accepted", -1, 0,
                          "the default of %s is longer than its capacity %d, yet the program was accepted" % (spec["strs"][0]["name"], spec["strs"][0]["cap"]))]
    caps = {s["name"]: s["cap"] for s in spec["strs"]}
    st = {}
    for s in spec["strs"]:
        d = s["default"]
        st[s["name"]] = bytearray(bytes.fromhex(d) if isinstance(d, str) else (d or b""))
    ev = []
    terminal = None
    pos = 0
    after = {}
    n = len(data)
    while pos < n:
        c = chr(data[pos])
        cmd = spec["cmds"].get(c)
        if cmd is None:
            terminal = ("FAIL", pos)
            break
        kind, name, arg = cmd
        used = 1
        full = False
        if kind == "assign":
            st[name] = bytearray(bytes.fromhex(arg))
        elif kind == "delete":
            st[name] = bytearray()
        elif kind == "appc":
            if len(st[name]) >= caps[name]:
                full = True
            else:
                st[name].append(arg & 0xFF)
        elif kind == "applast":
            if pos + 1 >= n:
                break               # the wildcard is still waiting for its byte
            used = 2
            if len(st[name]) >= caps[name]:
                full = True
            else:
                st[name].append(data[pos + 1])
        pos += used
        if full:
            ev.append({"kind": "hook", "name": "hfull", "k": pos, "snap": _f9_snap(spec, st), "opt": False, "taint": False})
            terminal = ("FINISH_TOO", pos)
            break
        ev.append({"kind": "hook", "name": "h0", "k": pos, "snap": _f9_snap(spec, st), "opt": False, "taint": False})
    out, obs = compare_model_trace(ev, terminal, False, canon, data, flags, "F9")
    return out


def f9_inputs(rng, spec, count):
    keys = sorted(spec["cmds"])
    res = []
    assigns = [k for k in keys if spec["cmds"][k][0] == "assign"]
    appc = [k for k in keys if spec["cmds"][k][0] == "appc"]
    # every command once after every assignment (the constant that was there before matters: a shorter one after a longer one)
    for _ in range(count):
        x = bytearray()
        for _ in range(rng.randrange(3, 14)):
            k = rng.choice(keys)
            x += k.encode()
            if spec["cmds"][k][0] == "applast":
                x.append(rng.choice((0, 255, 65, 10, 128)))
        res.append(bytes(x))
    # longest then shortest constant into each string; fill by char-appends up to and beyond the capacity
    byl = sorted(assigns, key=lambda k: len(spec["cmds"][k][2]))
    if byl:
        res.append((byl[-1] + byl[0] + byl[-1]).encode() + "".join(assigns).encode())
    for k in appc:
        res.append((k * 10).encode())
        if byl:
            res.append((byl[-1] + k * 9).encode())
    return res
