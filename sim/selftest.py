"""Self tests: toolchain/build and determinism of the whole pipeline."""
import hashlib
import json
import os
import subprocess
import sys

from . import nmfu_child, cbuild, engine, sched, checks, profiles

SRC = 'out str[4] s; hook h; parser { loop { s += /[a-c]/; h(); } }\n'


def build(workdir, tree):
    comp = nmfu_child.compile_in_fork(SRC, ["-O3", "-findirect-start-ptr"], tree=tree)
    if comp["verdict"] != "accepted":
        print("selftest-build: nmfu did not accept the probe program:", comp["verdict"], comp.get("error"))
        return 2
    drv = cbuild.build(comp, workdir, "selftest")
    caps = sched.Caps(comp["meta"]["flags"])
    out = engine.exec_runs(drv, [(0, sched.run_text(0, {0: b"abcabc"}, sched.canonical_ops(6, caps)))], os.path.join(workdir, "selftest"))
    run, crash = out[0]
    ok = crash is None and run is not None and run.complete and any(c.events for c in run.calls)
    print("selftest-build:", "ok" if ok else "FAILED", crash)
    return 0 if ok else 2


def digest_of(root, tree, workdir, workers, limit):
    """SHA-256 over the complete event log of a fixed slice of the C02 workload."""
    # a mixed slice: corpus units, generated units (incl. rich regexes, lifecycle, near-miss programs),
    # family units with their models, strict-done twins
    from . import families
    c02 = profiles.c02(root, "quick", tree)
    gen = [t for t in c02 if t[3]["label"].startswith("gen:")]
    c04 = [t for t in profiles.c04(root, "quick", tree) if "nearmiss" in t[3]["label"]]
    c03 = [t for t in profiles.c03(root, "quick", tree) if "life" in t[3]["label"]]
    tw = profiles._twin_tasks(root, "quick", tree, profiles.TIER["quick"])
    k = max(4, limit // 6)
    tasks = c02[:k] + gen[:k] + c04[:k] + c03[:k] + families.family_tasks("C10", "quick", root)[:k] + \
        families.family_tasks("C17", "quick", root)[:k] + tw[-k:]
    results = checks.run_pool(tasks, workdir, tree, workers)
    h = hashlib.sha256()
    for r in results:
        st = dict(r.get("stats") or {})
        st.pop("ticks", None)
        st.pop("guards_total", None)   # number of basic-block edges: depends on the order nmfu emits code in
        st.pop("guards_hit", None)
        st.pop("states_cut", None)      # state numbering likewise depends on the compiler's hash seed
        st.pop("states_seen", None)
        doc = {"label": r["label"], "argv": r["argv"], "status": r["status"], "verdict": r["verdict"],
               "findings": [(f["oracle"], f["kind"], f["op"], f["detail"].split(" stall=")[0], f["ctx"]["script"]) for f in r["findings"]],
               "stats": st, "samples": r.get("samples")}
        h.update(json.dumps(doc, sort_keys=True, default=str).encode())
    return h.hexdigest()


def determinism(workdir, tree, root):
    """same seed twice x {1,4,16} workers x harness hash seeds {0,12345}: identical event-log digests."""
    here = os.path.dirname(os.path.dirname(os.path.abspath(__file__)))
    digs = {}
    for seed in (root, root + 1):
        for workers in (1, 4, 16):
            for hs in ("0", "12345"):
                env = dict(os.environ)
                env.pop("NMFU_VERIF_REEXEC", None)
                env["PYTHONHASHSEED"] = hs
                env["NMFU_VERIF_REEXEC"] = "1"   # keep the requested hash seed: no re-exec
                code = ("import sys; sys.path.insert(0, %r); from sim import selftest; import tempfile, shutil; "
                        "wd = tempfile.mkdtemp(prefix='nmfuvd_'); "
                        "print(selftest.digest_of(%d, %r, wd, %d, 96)); shutil.rmtree(wd)" % (here, seed, tree, workers))
                p = subprocess.run([sys.executable, "-c", code], capture_output=True, text=True, env=env, timeout=900)
                d = p.stdout.strip().splitlines()[-1] if p.stdout.strip() else "ERR:" + p.stderr[-300:]
                digs.setdefault(seed, {})[(workers, hs)] = d
                print("seed=%d workers=%d hashseed=%s digest=%s" % (seed, workers, hs, d[:16]))
    ok = all(len(set(v.values())) == 1 and not list(v.values())[0].startswith("ERR") for v in digs.values())
    ok = ok and len({list(v.values())[0] for v in digs.values()}) == len(digs)
    print("selftest-determinism:", "ok" if ok else "FAILED")
    return 0 if ok else 2
