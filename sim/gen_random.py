"""
Random NMFU program generator (grammar based, type aware).

Produces source text plus a description (required flags, canaries, sample
inputs).  It aims for programs the compiler accepts about half of the time
and deliberately emits near-miss shapes for the liveness rules (C04): loop
bodies that may consume nothing, handlers that re-enter the construct that
raised them, and so on.  Rejected programs are simply skipped by the caller.

Workload only: nothing in here says what a program should *do*.
"""
import string

LETTERS = [ord(c) for c in "abcdefghijklmnopqrstuvwxyz"]
DIGITS = [ord(c) for c in "0123456789"]
PUNCT = [ord(c) for c in ",;:=#@!-_<>~"]
ALL_FIRST = LETTERS + DIGITS + PUNCT


def esc_str(bs):
    out = ""
    for b in bs:
        c = chr(b)
        if c == '"':
            out += '\\"'
        elif c == "\\":
            out += "\\\\"
        elif 32 <= b < 127:
            out += c
        else:
            out += "\\x%02x" % b
    return '"' + out + '"'


def esc_re_char(b):
    c = chr(b)
    if c in ".?*()[]\\+{}|/":
        return "\\" + c
    if c == " ":
        return "\\ "
    return c


def esc_set_char(b):
    c = chr(b)
    if c in "-]\\/^":
        return "\\" + c if c != "^" else "\\^"
    if c == " ":
        return "\\ "
    return c


class Atom:
    def __init__(self, text, first, open_set, sample, may_empty=False):
        self.text = text          # match-expression text
        self.first = set(first)   # possible first bytes
        self.open = set(open_set) # bytes that could extend the match after it could already end
        self.sample = bytes(sample)
        self.may_empty = may_empty


class Gen:
    def __init__(self, rng, want_yield=None, want_eof=None, max_depth=3, bias=None):
        self.r = rng
        self.max_depth = max_depth
        self.want_yield = rng.random() < 0.4 if want_yield is None else want_yield
        self.want_eof = rng.random() < 0.3 if want_eof is None else want_eof
        self.bias = bias or {}
        self.outs = []
        self.strs, self.ints, self.bools, self.enums, self.raws = [], [], [], [], []
        self.hooks, self.fcodes, self.ycodes = [], [], []
        self.canaries = {}
        self.loop_names = 0
        self.uses_yield = False
        self.uses_end = False
        self.samples = []
        self.near_miss = False

    # ------------------------------------------------------------ declarations
    def declare(self):
        r = self.r
        L = []
        ns = r.choice((0, 1, 1, 2, 2, 3)) if not self.bias.get("strings") else r.choice((1, 2, 3))
        zc = 0
        for i in range(ns):
            size = r.choice((2, 2, 3, 4, 5, 8, 16))
            name = "s%d" % i
            unterm = r.random() < 0.25
            default = None
            if r.random() < 0.2:
                cap = size if unterm else size - 1
                k = r.randrange(0, cap + 1)
                default = bytes(r.choice(LETTERS) for _ in range(k))
            decl = "out %sstr[%d] %s" % ("unterminated " if unterm else "", size, name)
            if default is not None:
                decl += " = " + esc_str(default)
            L.append(decl + ";")
            self.strs.append({"name": name, "size": size, "unterm": unterm})
            if r.random() < 0.8:
                cn = "zc%d" % zc
                zc += 1
                L.append("out int{size 1} %s = 90;" % cn)
                self.canaries[cn] = 90
        if r.random() < 0.15:
            t = r.choice(("uint32_t", "uint64_t", "uint16_t"))
            L.append("out raw{%s} w0;" % t)
            self.raws.append({"name": "w0", "size": {"uint32_t": 4, "uint64_t": 8, "uint16_t": 2}[t]})
            L.append("out int{size 1} zc%d = 90;" % zc)
            self.canaries["zc%d" % zc] = 90
            zc += 1
        for i in range(r.choice((0, 1, 1, 2))):
            attrs = []
            if r.random() < 0.5:
                attrs.append(r.choice(("signed", "unsigned")))
            if r.random() < 0.5:
                attrs.append("size %d" % r.choice((1, 2, 4, 8)))
            name = "n%d" % i
            d = "out int%s %s" % (("{" + ", ".join(attrs) + "}") if attrs else "", name)
            if r.random() < 0.7:
                d += " = %d" % r.choice((0, 0, 1, 7))
            L.append(d + ";")
            self.ints.append(name)
        if r.random() < 0.5:
            L.append("out bool b0%s;" % (" = false" if r.random() < 0.7 else ""))
            self.bools.append("b0")
        if r.random() < 0.35:
            L.append("out enum{V0,V1,V2} e0;")
            self.enums.append("e0")
        for i in range(r.choice((0, 1, 2, 2, 3))):
            L.append("hook h%d;" % i)
            self.hooks.append("h%d" % i)
        if r.random() < 0.5:
            self.fcodes = ["FA", "FB"][: r.choice((1, 2))]
            L.append("finishcode %s;" % ", ".join(self.fcodes))
        if self.want_yield:
            self.ycodes = ["YA", "YB", "YC"][: r.choice((1, 2, 3))]
            L.append("yieldcode %s;" % ", ".join(self.ycodes))
        return L

    # ------------------------------------------------------------ atoms
    def pick_first(self, blocked, pool=None):
        pool = [c for c in (pool or ALL_FIRST) if c not in blocked]
        if not pool:
            return None
        return self.r.choice(pool)

    def atom(self, blocked, kinds=None):
        r = self.r
        kinds = kinds or ("lit", "lit", "lit", "casei", "bin", "plus", "plus", "rep", "opt", "alt", "inv", "inv2", "concat", "any", "cls", "rich", "rich")
        if self.bias.get("rich") and "rich" in kinds:
            kinds = tuple(kinds) + ("rich",) * 8
        for _ in range(8):
            k = r.choice(kinds)
            a = self._atom(k, blocked)
            if a is not None:
                return a
        return self._atom("lit", blocked) or Atom('"\\x01"', {1}, set(), b"\x01")

    def _atom(self, k, blocked):
        r = self.r
        if k == "lit":
            f = self.pick_first(blocked)
            if f is None:
                return None
            bs = [f] + [r.choice(LETTERS + DIGITS) for _ in range(r.choice((0, 0, 1, 2, 3)))]
            return Atom(esc_str(bs), {f}, set(), bs)
        if k == "casei":
            f = self.pick_first(blocked, LETTERS)
            if f is None or (f - 32) in blocked:
                return None
            bs = [f] + [r.choice(LETTERS) for _ in range(r.choice((0, 1, 2)))]
            sample = [b - 32 if r.random() < 0.5 else b for b in bs]
            return Atom(esc_str(bs) + "i", {f, f - 32}, set(), sample)
        if k == "bin":
            f = self.pick_first(blocked, list(range(1, 9)) + [0, 255, 128])
            if f is None:
                return None
            bs = [f] + [r.choice((0, 1, 255, 65, 128)) for _ in range(r.choice((0, 1, 2)))]
            return Atom('"' + " ".join("%02x" % b for b in bs) + '"b', {f}, set(), bs)
        if k in ("plus", "rep", "star", "cls"):
            pool = r.choice((LETTERS[:6], LETTERS[6:12], DIGITS, LETTERS[12:20], DIGITS[:4], LETTERS[20:]))
            cls = [c for c in pool if c not in blocked]
            if len(cls) < 2 or len(cls) != len(pool):
                return None
            lo, hi = cls[0], cls[-1]
            txt = "[%s-%s]" % (esc_set_char(lo), esc_set_char(hi))
            if pool is DIGITS and r.random() < 0.5:
                txt = "\\d"
            if k == "plus":
                n = r.choice((1, 1, 2, 3, 5))
                return Atom("/%s+/" % txt, cls, cls, [r.choice(cls) for _ in range(n)])
            if k == "star":
                n = r.choice((0, 1, 2))
                return Atom("/%s*/" % txt, cls, cls, [r.choice(cls) for _ in range(n)], may_empty=True)
            if k == "cls":
                return Atom("/%s/" % txt, cls, set(), [r.choice(cls)])
            n = r.choice((1, 2, 3))
            if r.random() < 0.3:
                m = n + r.choice((1, 2))
                k2 = r.randrange(n, m + 1)
                return Atom("/%s{%d,%d}/" % (txt, n, m), cls, cls, [r.choice(cls) for _ in range(k2)])
            return Atom("/%s{%d}/" % (txt, n), cls, set(), [r.choice(cls) for _ in range(n)])
        if k == "opt":
            f = self.pick_first(blocked, LETTERS)
            if f is None:
                return None
            g = r.choice([c for c in LETTERS if c != f])
            return Atom("/%s%s?/" % (esc_re_char(f), esc_re_char(g)), {f}, {g}, [f] + ([g] if r.random() < 0.5 else []))
        if k == "alt":
            f = self.pick_first(blocked, LETTERS)
            g = self.pick_first(blocked | {f} if f else blocked, LETTERS)
            if f is None or g is None:
                return None
            a = [f] + [r.choice(LETTERS) for _ in range(r.choice((1, 2)))]
            b = [g] + [r.choice(LETTERS) for _ in range(r.choice((0, 1, 2)))]
            return Atom("/(%s|%s)/" % ("".join(esc_re_char(c) for c in a), "".join(esc_re_char(c) for c in b)),
                        {f, g}, set(), r.choice((a, b)))
        if k == "inv":
            stop = r.choice(PUNCT)
            allb = set(range(256)) - {stop}
            if allb & blocked:
                return None
            n = r.choice((1, 2, 4))
            return Atom("/[^%s]+/" % esc_set_char(stop), allb, allb, [r.choice(LETTERS) for _ in range(n)])
        if k == "inv2":
            # inverted set made of two ranges with a one-character hole between them
            base = r.choice(LETTERS[:16])
            width = r.choice((5, 6, 7, 8))
            chars = list(range(base, base + width))
            hole = chars[r.randrange(1, width - 1)]
            excluded = set(chars) - {hole}
            stop = None
            if r.random() < 0.4:
                stop = r.choice(PUNCT)
                excluded |= {stop}
            allb = set(range(256)) - excluded
            if allb & blocked:
                return None
            txt = "[^%s-%s%s-%s%s]" % (chr(chars[0]), chr(hole - 1), chr(hole + 1), chr(chars[-1]), esc_set_char(stop) if stop else "")
            other = [c for c in LETTERS + DIGITS if c not in excluded]
            smp = [r.choice(other), hole, r.choice(other), hole][: r.choice((2, 3, 4))]
            if r.random() < 0.5:
                return Atom("/%s+/" % txt, allb, allb, smp)
            return Atom("/%s{2}/" % txt, allb, set(), smp[:2])
        if k == "any":
            if blocked:
                return None
            return Atom("/./", set(range(256)), set(), [r.choice((0, 255, 97, 10))])
        if k == "rich":
            return rich_regex(r, blocked, depth=r.choice((2, 3, 3)))
        if k == "concat":
            a = self.atom(blocked, ("lit", "casei", "rep", "cls"))
            b = self.atom(set(a.open), ("lit", "plus", "rep", "cls"))
            return Atom("(%s %s)" % (a.text, b.text), a.first, b.open, a.sample + b.sample)
        return None

    # ------------------------------------------------------------ expressions
    def int_expr(self, target=None):
        r = self.r
        atoms = ["%d" % r.choice((0, 1, 2, 3, 10, 255)), "$last", "($last - '0')"]
        for n in self.ints:
            atoms.append(n)
        for s in self.strs + self.raws:
            atoms.append("%s.len" % s["name"])
            if not self.bias.get("noindex"):
                # reading beyond the current length yields whatever the storage holds (representation dependent)
                atoms.append("%s[%d]" % (s["name"], r.choice((0, 0, 1, s["size"] - 1))))
                if self.ints:
                    # variable (possibly negative or too large) index: the bounds check must make it read 0
                    atoms.append("%s[%s]" % (s["name"], r.choice(self.ints)))
                    atoms.append("%s[%s - %d]" % (s["name"], r.choice(self.ints), r.choice((1, 3, 300))))
        a = r.choice(atoms)
        k = r.random()
        if k < 0.35:
            return "[%s]" % a
        if k < 0.7:
            return "[%s %s %s]" % (a, r.choice(("+", "-", "*", "|", "&", "^")), r.choice(atoms))
        if target and k < 0.9:
            return "[%s * 10 + ($last - '0')]" % target
        return "[(%s + %s) %s %d]" % (a, r.choice(atoms), r.choice(("%", "/", ">>", "<<")), r.choice((1, 2, 3, 7)))

    def cond_expr(self):
        r = self.r
        c = []
        for n in self.ints:
            c.append("%s %s %d" % (n, r.choice(("<", ">", "==", "!=", ">=")), r.choice((0, 1, 2, 5, 20))))
        for s in self.strs:
            c.append("%s.len %s %d" % (s["name"], r.choice((">", "<", "==")), r.choice((0, 1, s["size"] - 1))))
            if not self.bias.get("noindex"):
                c.append("%s[0] == '%s'" % (s["name"], chr(r.choice(LETTERS))))
        for b in self.bools:
            c.append(b)
            c.append("!%s" % b)
        c.append("$last == '%s'" % chr(r.choice(LETTERS + DIGITS)))
        c.append("$last %s %d" % (r.choice(("<", ">")), r.choice((48, 64, 100))))
        x = r.choice(c)
        if r.random() < 0.2:
            x = "%s %s %s" % (x, r.choice(("&&", "||")), r.choice(c))
        return x

    # ------------------------------------------------------------ actions
    def action(self, allow_flow=True, in_loop=False):
        r = self.r
        opts = []
        if self.hooks:
            opts += ["hook"] * 4
        if self.ints:
            opts += ["seti", "seti", "incr"]
        if self.bools:
            opts += ["setb"]
        if self.enums:
            opts += ["sete"]
        if self.strs:
            opts += ["sets", "dels", "appc", "appc"]
        if self.raws:
            opts += ["appw", "delw"]
        if allow_flow:
            if self.ycodes:
                opts += ["yield"] * 3
            if r.random() < 0.15:
                opts += ["finish"]
        if not opts:
            return None
        k = r.choice(opts)
        if k == "hook":
            return "%s();" % r.choice(self.hooks)
        if k == "seti":
            n = r.choice(self.ints)
            return "%s = %s;" % (n, r.choice(("%d" % r.choice((0, 1, 42, -3, -1)), self.int_expr(n))))
        if k == "incr":
            n = r.choice(self.ints)
            return "%s = [%s + 1];" % (n, n)
        if k == "setb":
            return "%s = %s;" % (r.choice(self.bools), r.choice(("true", "false")))
        if k == "sete":
            return "%s = %s;" % (r.choice(self.enums), r.choice(("V0", "V1", "V2")))
        if k == "sets":
            s = r.choice(self.strs)
            cap = s["size"] if s["unterm"] else s["size"] - 1
            n = r.randrange(0, cap + 1)
            return "%s = %s;" % (s["name"], esc_str([r.choice(LETTERS) for _ in range(n)]))
        if k == "dels":
            return "delete %s;" % r.choice(self.strs)["name"]
        if k == "delw":
            return "delete w0;"
        if k == "appc":
            return "%s += %s;" % (r.choice(self.strs)["name"], r.choice(("[$last]", "['x']", "[65]", self.int_expr())))
        if k == "appw":
            return "w0 += %s;" % r.choice(("[$last]", "[1]"))
        if k == "yield":
            self.uses_yield = True
            return "yield %s;" % r.choice(self.ycodes)
        if k == "finish":
            if self.fcodes and r.random() < 0.6:
                return "finish %s;" % r.choice(self.fcodes)
            return "finish;"
        return None

    # ------------------------------------------------------------ statements
    def match_stmt(self, blocked):
        """returns (lines, atom)"""
        r = self.r
        a = self.atom(blocked)
        k = r.random()
        if self.strs and k < 0.35:
            s = r.choice(self.strs)["name"]
            return ["%s += %s;" % (s, a.text)], a
        if self.raws and k < 0.42:
            return ["w0 += %s;" % a.text], a
        if k > 0.93:
            return ["wait %s;" % a.text], Atom(a.text, set(), set(), bytes(r.choice(LETTERS) for _ in range(r.choice((0, 2)))) + a.sample)
        return ["%s;" % a.text], a

    def seq(self, depth, blocked, in_loop, nmin=1, nmax=4, must_consume_first=False, breakable=None):
        """
        Statement sequence.  Returns (lines, first, open, sample, consumes) where
        first = bytes the sequence can start with (None if it starts with a non-matching
        statement and so is entered unconditionally), open = bytes blocked for what follows.
        """
        r = self.r
        lines, sample = [], b""
        first = None
        consumes = False
        cur_blocked = set(blocked)
        n = r.randrange(nmin, nmax + 1)
        for i in range(n):
            force_match = must_consume_first and i == 0
            k = r.random()
            if force_match or k < 0.45:
                l, a = self.match_stmt(cur_blocked)
                lines += l
                sample += a.sample
                if first is None and not consumes:
                    first = set(a.first)
                consumes = True
                cur_blocked = set(a.open)
            elif k < 0.75 or depth >= self.max_depth:
                act = self.action(in_loop=in_loop)
                if act is None:
                    continue
                lines.append(act)
                if act.startswith("finish"):
                    break
                if first is None and not consumes:
                    first = set()  # unconditional entry
            else:
                l, f, o, smp, c = self.block(depth + 1, cur_blocked, in_loop, breakable)
                if l is None:
                    continue
                lines += l
                sample += smp
                if first is None and not consumes:
                    first = set(f) if f is not None else set()
                consumes = consumes or c
                cur_blocked = set(o)
        return lines, first, cur_blocked, sample, consumes

    def block(self, depth, blocked, in_loop, breakable):
        r = self.r
        kinds = ["optional", "case", "case", "loop", "loop", "try", "try", "foreach", "if", "if"]
        if self.ycodes:
            kinds += ["greedy", "condfin"]
        if self.bias.get("liveness"):
            kinds += ["nearmiss"] * 4
        if self.bias.get("oos") and self.strs:
            kinds += ["oos"] * 4
        if self.want_eof:
            kinds += ["endcase"]
        k = r.choice(kinds)
        ind = lambda ls: ["    " + x for x in ls]
        if k == "condfin":
            # a conditional finish and a yield attached to the same match
            a = self.atom(blocked, ("lit", "cls", "rep"))
            fin = "finish %s;" % self.fcodes[0] if self.fcodes else "finish;"
            self.uses_yield = True
            order = r.random() < 0.7
            acts = ["if %s { %s }" % (self.cond_expr(), fin), "yield %s;" % r.choice(self.ycodes)]
            if not order:
                acts.reverse()
            x = self.action(allow_flow=False)
            return (["%s;" % a.text] + ([x] if x and r.random() < 0.5 else []) + acts, a.first, a.open, a.sample, True)
        if k == "optional":
            body, f, o, smp, c = self.seq(depth, blocked, in_loop, 1, 3, must_consume_first=True, breakable=breakable)
            take = r.random() < 0.6
            return (["optional {"] + ind(body) + ["}"], None, set(blocked) | (f or set()) | o, smp if take else b"", False)
        if k == "case":
            ncl = r.choice((2, 2, 3))
            used = set(blocked)
            clauses, samples, opens = [], [], set()
            for _ in range(ncl):
                a = self.atom(used, ("lit", "lit", "casei", "rep", "plus", "alt", "cls"))
                used |= a.first
                body, f, o, smp, c = self.seq(depth, a.open, in_loop, 0, 2, breakable=breakable)
                clauses += ["%s -> {" % a.text] + ind(body) + ["}"]
                samples.append(a.sample + smp)
                opens |= o | a.open
            if r.random() < 0.4:
                body, f, o, smp, c = self.seq(depth, used, in_loop, 0, 2, breakable=breakable)
                clauses += ["else -> {"] + ind(body) + ["}"]
                opens |= o
            return (["case {"] + ind(clauses) + ["}"], used - set(blocked), opens, r.choice(samples), True)
        if k == "greedy":
            cls = [c for c in LETTERS[:8] if c not in blocked]
            if len(cls) != 8:
                return None, None, None, b"", False
            self.uses_yield = True
            kw = bytes(r.choice(cls) for _ in range(3))
            y = lambda: "yield %s;" % r.choice(self.ycodes)
            # (a keyword at the same priority as the class it belongs to is a tie the compiler must reject)
            prio = "prio 1 " if r.random() < 0.75 else ""
            body = ["/[a-h]+/ -> { %s }" % y(), "\"(\" -> { %s }" % y(), "/\\d+/ -> { %s }" % y(),
                    "%s%s -> { %s }" % (prio, esc_str(kw), y()), "\" \" -> {}"]
            if r.random() < 0.3 and self.ints:
                body[0] = "/[a-h]+/ -> { %s = 1; }" % self.ints[0]
                body[3] = "%s%s -> { %s = 2; }" % (prio, esc_str(kw), self.ints[0])
            if r.random() < 0.5:
                body.append("\".\" -> { break; }")
            smp = b" ".join(r.choice((kw, b"abc", b"(", b"12", bytes(r.choice(cls) for _ in range(2)))) for _ in range(r.choice((1, 3, 5)))) + b" ."
            return (["loop {", "    greedy case {"] + ind(ind(body)) + ["    }", "}"], None, set(), smp, True)
        if k == "loop":
            self.loop_names += 1
            name = "l%d" % self.loop_names
            shape = r.choice(("casebreak", "casebreak", "ifbreak", "nested", "multicase", "multicase"))
            if shape == "multicase":
                # the classic dispatch loop: several clauses that return to the case (some with actions only, some
                # with further matches, one with a wait) and one that breaks
                used = set(blocked)
                clauses, samples = [], []
                for ci in range(r.choice((2, 3, 4))):
                    a = self.atom(used, ("cls", "lit", "lit", "casei", "rep"))
                    used |= a.first
                    kind = r.choice(("acts", "acts", "match", "wait", "empty"))
                    body_l, smp = [], b""
                    if kind in ("acts", "match", "wait"):
                        for _ in range(r.choice((1, 2))):
                            x = self.action(allow_flow=False)
                            if x:
                                body_l.append(x)
                    if kind == "match":
                        b2 = self.atom(set(a.open), ("lit", "cls", "rep"))
                        body_l.append("%s;" % b2.text)
                        smp = b2.sample
                    elif kind == "wait":
                        t = r.choice(PUNCT)
                        body_l.append("wait %s;" % esc_str([t]))
                        smp = bytes(r.choice(LETTERS) for _ in range(r.choice((0, 1, 2)))) + bytes([t])
                    clauses += ["%s -> {" % a.text] + ind(body_l) + ["}"]
                    samples.append(a.sample + smp)
                brk = self.atom(used, ("lit",))
                clauses += ["%s -> { break %s; }" % (brk.text, name)]
                seq_s = b"".join(r.choice(samples) for _ in range(r.choice((2, 4, 7))))
                return (["loop %s {" % name, "    case {"] + ind(ind(clauses)) + ["    }", "}"], used | brk.first - set(blocked), set(),
                        seq_s + brk.sample, True)
            if shape == "casebreak":
                a = self.atom(blocked, ("lit", "cls", "rep", "casei"))
                b = self.atom(set(blocked) | a.first, ("lit", "cls"))
                b1, f1, o1, s1, c1 = self.seq(depth, a.open, True, 0, 2, breakable=name)
                acts = []
                x = self.action(allow_flow=False)
                if x:
                    acts.append(x)
                body = ["case {"] + ind(["%s -> {" % a.text] + ind(b1) + ["}", "%s -> {" % b.text] + ind(acts + ["break %s;" % name]) + ["}"]) + ["}"]
                reps = r.choice((0, 1, 2, 4))
                return (["loop %s {" % name] + ind(body) + ["}"], a.first | b.first, set(), (a.sample + s1) * reps + b.sample, True)
            if shape == "ifbreak":
                a = self.atom(blocked, ("cls", "rep", "lit"))
                body = ["%s;" % a.text, "if %s {" % self.cond_expr(), "    break;", "}"]
                x = self.action(allow_flow=True, in_loop=True)
                if x and r.random() < 0.6:
                    body.insert(1, x)
                return (["loop %s {" % name] + ind(body) + ["}"], a.first, a.first | a.open, a.sample * r.choice((1, 2, 5)), True)
            a = self.atom(blocked, ("lit", "cls"))
            b = self.atom(set(blocked) | a.first, ("lit",))
            c = self.atom(set(blocked) | a.first | b.first, ("lit",))
            self.loop_names += 1
            inner = "l%d" % self.loop_names
            body = ["%s;" % a.text, "loop %s {" % inner] + ind(["case {"] + ind(["%s -> { }" % b.text, "%s -> { break %s; }" % (c.text, r.choice((name, inner)))]) + ["}"]) + ["}"]
            return (["loop %s {" % name] + ind(body) + ["}"], a.first, set(), a.sample + b.sample + c.sample + a.sample + c.sample, True)
        if k == "try":
            body, f, o, smp, c = self.seq(depth, blocked, in_loop, 1, 3, must_consume_first=r.random() < 0.8, breakable=breakable)
            kinds_c = r.choice(("", "", "(nomatch)", "(outofspace)", "(nomatch, outofspace)"))
            hshape = r.random()
            if hshape < 0.3:
                hb = []
                x = self.action(allow_flow=False)
                if x:
                    hb.append(x)
                hb.append(r.choice(("finish;", "finish %s;" % self.fcodes[0] if self.fcodes else "finish;")))
            elif hshape < 0.6:
                t = r.choice(PUNCT)
                hb = []
                x = self.action(allow_flow=False)
                if x:
                    hb.append(x)
                hb.append("wait %s;" % esc_str([t]))
            else:
                hb, hf, ho, hs, hc = self.seq(depth, set(), in_loop, 0, 2, breakable=breakable)
            return (["try {"] + ind(body) + ["}", "catch %s{" % (kinds_c + " " if kinds_c else "")] + ind(hb) + ["}"], f, set(), smp, c)
        if k == "foreach":
            a = self.atom(blocked, ("plus", "rep", "lit", "cls"))
            acts = []
            for _ in range(r.choice((1, 2))):
                x = self.action(allow_flow=False)
                if x:
                    acts.append(x)
            if not acts:
                return None, None, None, b"", False
            return (["foreach {", "    %s;" % a.text, "} do {"] + ind(acts) + ["}"], a.first, a.open, a.sample, True)
        if k == "if":
            c1 = self.cond_expr()
            b1, f1, o1, s1, cc1 = self.seq(depth, blocked, in_loop, 1, 2, breakable=breakable)
            lines = ["if %s {" % c1] + ind(b1) + ["}"]
            o = set(o1)
            if r.random() < 0.3:
                b2, f2, o2, s2, cc2 = self.seq(depth, blocked, in_loop, 1, 2, breakable=breakable)
                lines += ["elif %s {" % self.cond_expr()] + ind(b2) + ["}"]
                o |= o2
            if r.random() < 0.5:
                b3, f3, o3, s3, cc3 = self.seq(depth, blocked, in_loop, 1, 2, breakable=breakable)
                lines += ["else {"] + ind(b3) + ["}"]
                o |= o3
            return (lines, None, o | set(blocked), s1 if r.random() < 0.5 else b"", False)
        if k == "endcase":
            self.uses_end = True
            a = self.atom(blocked, ("lit", "cls"))
            acts = [x for x in (self.action(allow_flow=False), self.action(allow_flow=False)) if x]
            fin = r.choice(("", "finish;", "finish %s;" % self.fcodes[0] if self.fcodes else ""))
            body = ["%s -> {" % a.text] + ind([x for x in (self.action(allow_flow=False),) if x]) + ["}",
                    "end -> {"] + ind(acts + ([fin] if fin else [])) + ["}"]
            return (["case {"] + ind(body) + ["}"], a.first, set(), a.sample, True)
        if k == "nearmiss":
            self.near_miss = True
            return self.near_miss_block(depth, blocked, in_loop)
        if k == "oos":
            return self.oos_block(depth, blocked, in_loop)
        return None, None, None, b"", False

    # ------------------------------------------------------------ liveness near misses
    def near_miss_block(self, depth, blocked, in_loop):
        """Shapes around the compile-time liveness rules; many are (rightly) rejected."""
        r = self.r
        ind = lambda ls: ["    " + x for x in ls]
        a = self.atom(blocked, ("lit", "cls", "plus"))
        s = r.choice(self.strs)["name"] if self.strs else None
        h = (r.choice(self.hooks) + "();") if self.hooks else ""
        shapes = [
            ["loop {", "    optional { %s; }" % a.text, "}"],
            ["loop {", "    case {", "        %s -> {}" % a.text, "        else -> {}", "    }", "}"],
            ["loop {", "    if %s { %s; }" % (self.cond_expr(), a.text), "}"],
            ["loop {", "    try { %s; } catch (nomatch) { %s }" % (a.text, h), "}"],
            ["loop {", "    try { %s; } catch { }" % a.text, "}"],
            ["loop {", "    try { %s; } catch { %s; }" % (a.text, a.text), "}"],
            ["loop l9 {", "    loop {", "        %s;" % a.text, "        break l9;", "    }", "}"] if False else
            ["loop {", "    loop {", "        case { %s -> { break; } }" % a.text, "    }", "}"],
        ]
        if self.ycodes:
            self.uses_yield = True
            shapes.append(["loop {", "    yield %s;" % self.ycodes[0], "    optional { %s; }" % a.text, "}"])
            shapes.append(["loop {", "    %s;" % a.text, "    yield %s;" % self.ycodes[0], "}"])
        if s:
            shapes += [
                ["loop {", "    try { %s += %s; } catch (outofspace) { %s }" % (s, a.text, h), "}"],
                ["loop {", "    try { %s += %s; } catch (outofspace) { delete %s; }" % (s, a.text, s), "}"],
                ["loop {", "    try { %s += %s; } catch (outofspace) { %s += %s; \";\"; }" % (s, a.text, s, a.text), "}"],
                ["loop {", "    try { %s += %s; } catch { }" % (s, a.text), "}"],
                ["try { %s += %s; } catch (outofspace) { %s += %s; }" % (s, a.text, s, a.text)],
            ]
        sh = r.choice(shapes)
        smp = a.sample * r.choice((1, 3, 9)) + bytes([r.choice(PUNCT)])
        return (sh, a.first, set(range(256)) if sh[0].startswith("loop") else set(a.open), smp, True)

    def oos_block(self, depth, blocked, in_loop):
        """append / out-of-space shapes, including a yield on the appending transition."""
        r = self.r
        s = r.choice(self.strs)
        other = r.choice(self.strs)
        a = self.atom(blocked, ("plus", "rep", "cls", "inv"))
        t = r.choice([c for c in PUNCT if c not in a.first and c not in a.open] or PUNCT)
        h = (r.choice(self.hooks) + "();") if self.hooks else ""
        y = ""
        if self.ycodes and r.random() < 0.6:
            self.uses_yield = True
            y = "yield %s;" % r.choice(self.ycodes)
        handler = r.choice((
            "finish%s;" % ((" " + self.fcodes[0]) if self.fcodes else ""),
            "%s wait %s;" % (h, esc_str([t])),
            "delete %s; wait %s;" % (s["name"], esc_str([t])),
            "delete %s; %s += %s; %s;" % (s["name"], other["name"], a.text, esc_str([t])),
        ))
        big = a.sample * (s["size"] + 2)
        if r.random() < 0.5:
            lines = ["try {", "    %s += %s;" % (s["name"], a.text), "    %s" % y, "    %s;" % esc_str([t]), "    %s" % h, "}",
                     "catch (outofspace) {", "    %s" % handler, "}"]
            smp = r.choice((a.sample, big)) + bytes([t])
            return (lines, a.first, set(), smp, True)
        lines = ["loop {", "    try {", "        %s += %s;" % (s["name"], a.text if not a.open else "/%s/" % a.text.strip("/").rstrip("+")),
                 "        %s" % y, "    }", "    catch (outofspace) {", "        delete %s;" % s["name"],
                 "        %s += %s;" % (other["name"], "/%s/" % a.text.strip("/").rstrip("+") if a.open else a.text), "    }", "}"]
        return (lines, a.first, set(range(256)), big, True)

    # ------------------------------------------------------------ whole program
    def program(self):
        decls = self.declare()
        body, f, o, smp, c = self.seq(0, set(), False, 2, 6, must_consume_first=self.r.random() < 0.8)
        if self.want_eof and self.r.random() < 0.7:
            self.uses_end = True
            tail = ["end;"]
            x = self.action(allow_flow=False)
            if x:
                tail.append(x)
            if self.r.random() < 0.3:
                tail.append("finish%s;" % ((" " + self.fcodes[0]) if self.fcodes else ""))
            body += tail
        if self.r.random() < 0.3:
            body = ["loop {"] + ["    " + x for x in body] + ["}"]
            smp = smp * self.r.choice((1, 2, 3))
        src = "\n".join(decls) + "\n\nparser {\n" + "\n".join("    " + x for x in body) + "\n}\n"
        need = []
        if self.uses_yield or self.ycodes or "yield " in src:
            need.append("-fyield-support")
        if self.uses_end or "end;" in src or "end ->" in src:
            need.append("-feof-support")
        return {"source": src, "need": need, "canaries": dict(self.canaries), "samples": [smp.hex()] if smp else [],
                "near_miss": self.near_miss, "has_strings": bool(self.strs or self.raws)}


def generate(rng, **kw):
    g = Gen(rng, **kw)
    return g.program()


# ------------------------------------------------------------------ focused liveness near-miss programs (C04)

def generate_nearmiss(rng):
    """
    Small programs built around one construct whose control flow might go round without
    consuming input.  The compiler must either reject them or the parser must not spin.
    """
    g = Gen(rng, want_yield=rng.random() < 0.5, want_eof=rng.random() < 0.2)
    r = rng
    decl = []
    n1, n2 = r.choice((2, 2, 3, 4)), r.choice((2, 3, 5))
    decl.append("out %sstr[%d] s0;" % ("unterminated " if r.random() < 0.2 else "", n1))
    decl.append("out str[%d] s1;" % n2)
    decl.append("out int n0 = 0;")
    decl.append("out bool b0 = false;")
    decl.append("hook h0;")
    g.strs = [{"name": "s0", "size": n1, "unterm": False}, {"name": "s1", "size": n2, "unterm": False}]
    g.ints, g.bools, g.hooks = ["n0"], ["b0"], ["h0"]
    if g.want_yield:
        decl.append("yieldcode YA;")
        g.ycodes = ["YA"]
    if r.random() < 0.5:
        decl.append("finishcode FA;")
        g.fcodes = ["FA"]
    A = g.atom(set(), ("cls", "plus", "lit", "rep", "cls", "inv"))
    B = g.atom(set(A.first) | set(A.open), ("lit", "cls"))
    one = A.text if not A.open else "/%s/" % A.text.strip("/").rstrip("+")
    y = "yield YA;" if g.ycodes and r.random() < 0.5 else ""
    bodies = [
        "s0 += %s;" % one,
        "s0 += %s; %s" % (one, y),
        "%s; s0 += [$last];" % one,
        "%s;" % A.text,
        "s0 += %s; %s;" % (one, B.text),
        "s0 += %s; s1 += [s0.len];" % one,
    ]
    handlers = [
        "", "h0();", "delete s0;", "delete s1;", "s0 += %s;" % one, "s1 += %s;" % one, "s1 += %s; %s;" % (one, B.text),
        "n0 = [n0 + 1];", "b0 = true;", "%s" % y, "optional { %s; }" % B.text, "if n0 < 3 { %s; }" % B.text,
        "if b0 { %s; }" % B.text, "wait %s;" % B.text, "s1 += [65];", "s0 += [65];", "break;", "delete s0; s0 += %s;" % one,
    ]
    catches = ["catch (outofspace)", "catch (outofspace)", "catch (nomatch)", "catch", "catch (nomatch, outofspace)"]
    # the shapes on which append, yield and the overflow redirect share one transition get extra weight
    if y:
        bodies += ["s0 += %s; %s" % (one, y)] * 3 + ["s0 += %s; h0(); %s" % (one, y), "s0 += %s; if n0 < 9 { n0 = [n0 + 1]; } %s" % (one, y)]
    handlers += ["delete s0;"] * 3 + ["delete s0; h0();", "delete s0; s1 += [s0.len];"]
    body, handler, catch = r.choice(bodies), r.choice(handlers), r.choice(catches)
    t = "try { %s } %s { %s }" % (body, catch, handler)
    wraps = [
        "loop { %s }" % t,
        "loop { %s %s }" % (t, r.choice(("", "n0 = [n0 + 1];", "h0();"))),
        "loop { %s; %s }" % (B.text, t),
        "loop { optional { %s; } %s }" % (B.text, t),
        "try { loop { %s } } %s { %s }" % (t, r.choice(catches), r.choice(handlers).replace("break;", "")),
        "loop l0 { loop { %s break l0; } }" % t,
        "loop { case { %s -> { %s } else -> { %s } } }" % (A.text, "s0 += [$last];", r.choice(("", "h0();", "delete s0;"))),
        "loop { if n0 < 2 { %s } else { %s; } }" % (t, B.text),
        "foreach { loop { %s } } do { n0 = [n0 + 1]; }" % t,
        "%s %s" % (t, t),
        "loop { %s } " % t.replace("try {", "try { optional { %s; }" % B.text, 1),
    ]
    # nested loops whose inner loop is left by a break on a non-consuming path and re-entered at once
    # (a conditional break on data that does not change; an else-break after a multi-valued set)
    inv = "/[^%s%s]/" % (chr(B.sample[0]) if B.sample and 97 <= B.sample[0] <= 122 else "p", "q")
    wraps += [
        "loop lo { loop li { if n0 == 1 { break li; } %s; n0 = 1; } }" % A.text,
        "loop lo { loop li { if b0 { break li; } %s; b0 = true; } }" % A.text,
        "loop lo { loop li { case { %s -> {} else -> { break li; } } } case { %s -> { %s; } else -> {} } }" % (inv, esc_str([ord("p")]), esc_str([ord("x")])),
        "loop lo { loop li { case { %s -> {} else -> { break li; n0 = 1; } } } %s; }" % (A.text, B.text),
        "loop lo { loop li { case { %s -> {} else -> { break li; n0 = 1; } } } }" % A.text,
        "loop lo { loop li { case { %s -> {} else -> { break li; } } } }" % A.text,
        "loop lo { loop li { if n0 == 0 { case { %s -> {} else -> { break li; } } } else { %s; } n0 = [n0 + 1]; } }" % (A.text, B.text),
        "loop lo { loop li { optional { %s; } break li; } h0(); }" % A.text,
    ]
    prog = r.choice(wraps)
    if "break;" in prog and "loop" not in prog:
        prog = prog.replace("break;", "")
    pre = r.choice(("", "", "%s; " % esc_str([r.choice(PUNCT)])))
    # lead-ins that enter the construct through a fall-through edge instead of from the start state
    C = g.atom(set(A.first) | set(A.open) | set(B.first), ("lit",))
    lead = r.choice(("", "", "", "optional { %s; } " % C.text, "try { %s; } catch (nomatch) { } " % C.text,
                     "if n0 < 3 { %s; } else { n0 = 0; } " % C.text, "case { %s -> {} else -> {} } " % C.text))
    src = "\n".join(decl) + "\n\nparser {\n    " + pre + lead + prog + "\n}\n"
    need = []
    if g.ycodes:
        need.append("-fyield-support")
    fill = A.sample[:1] if A.sample else b"a"
    pfx = bytes([ord(pre[1])]) if pre else b""
    samples = [pfx + fill * k for k in (1, n1, n1 + 1, n1 + n2 + 3)] + [pfx + fill * (n1 + 1) + B.sample + fill * 3,
                                                                       pfx + B.sample + fill * (n1 + 2), pfx + fill + b"\x00",
                                                                       pfx + b"\x01", pfx + C.sample + fill * 2 + b"\x01",
                                                                       pfx + C.sample + B.sample]
    return {"source": src, "need": need, "canaries": {}, "samples": [s.hex() for s in samples], "near_miss": True, "has_strings": True}


def generate_nearmiss_negclass(rng):
    """
    Near-miss programs whose possible non-consuming cycle runs through a *negated character class*: the state in front
    of /[^XZ].../ has an explicit multi-symbol error transition (on X and Z) instead of a plain else, the handler or the
    statement behind it is skippable and starts with X - so on Z control may go round without consuming.  The compiler
    must reject these or the parser must not spin.
    """
    r = rng
    X, Z = r.sample([ord(c) for c in ";#,:!@"], 2)
    more = r.choice(("", "", chr(r.choice([ord(c) for c in "~_"]))))
    neg = "[^%s%s%s]" % (chr(X), chr(Z), more)
    k = chr(r.choice(LETTERS[:6]))
    body_rx = r.choice(("/%sk/", "/%sk/", "/%s/", "/%s[a-f]/", "/%s+;/", "/%sk?/", "/(%s|ab)k/")).replace("k", k) % neg
    decl = ["out str[%d] s0;" % r.choice((2, 3, 5)), "out int n0 = 0;", "out bool b0 = false;", "hook h0;"]
    body = r.choice(("%s;", "%s;", "s0 += %s;", "%s; h0();", "%s; n0 = [n0 + 1];")) % body_rx
    xs = esc_str([X])
    xx = esc_str([X, X])
    skippable = ["optional { %s; }" % xx, "optional { %s; }" % xs, "if n0 < 3 { %s; }" % xs, "case { %s -> {} else -> {} }" % xs, "",
                 "h0();", "n0 = [n0 + 1];", "optional { %s; } h0();" % xs, "try { %s; } catch (nomatch) { }" % xs, "delete s0;",
                 "optional { %s; } optional { %s; }" % (xs, esc_str([Z, X]))]
    hnd = r.choice(skippable)
    catch = r.choice(("catch (nomatch)", "catch (nomatch)", "catch", "catch (nomatch, outofspace)"))
    wraps = [
        "loop { try { %s } %s { %s } }" % (body, catch, hnd),
        "loop { try { %s } %s { %s } }" % (body, catch, hnd),
        "loop { try { loop { %s } } %s { %s } }" % (body, catch, hnd),
        "loop { optional { %s } %s }" % (body, hnd),
        "loop lo { loop li { case { %s -> {} else -> { break li; } } } %s }" % (body_rx, hnd),
        "loop { case { %s -> {} else -> { %s } } }" % (body_rx, hnd),
        "loop { try { %s } %s { %s } %s }" % (body, catch, hnd, r.choice(skippable)),
        "try { loop { try { %s } %s { %s } } } catch (nomatch) { h0(); }" % (body, catch, hnd),
        "loop { try { %s %s; } %s { %s } }" % (body, xs, catch, hnd),
    ]
    prog = r.choice(wraps)
    lead = r.choice(("", "", "%s; " % esc_str([r.choice(LETTERS[6:12])])))
    src = "\n".join(decl) + "\n\nparser {\n    " + lead + prog + "\n}\n"
    pfx = bytes([ord(lead[1])]) if lead else b""
    a = bytes([r.choice(LETTERS[:6])])
    kk = k.encode()
    samples = [pfx + a + kk + bytes([Z]), pfx + bytes([Z]), pfx + a + kk + bytes([X, X]) + a + kk, pfx + a + kk + bytes([X]) + bytes([Z]),
               pfx + bytes([X]), pfx + a + kk + a + kk + bytes([Z, Z]), pfx + a + bytes([Z]), pfx + a + kk + b";" + bytes([Z]),
               pfx + bytes([X, Z]), pfx + a + kk + bytes([Z, X, Z])]
    return {"source": src, "need": [], "canaries": {}, "samples": [x.hex() for x in samples], "near_miss": True, "has_strings": True}


def generate_nearmiss_yieldend(rng):
    """
    Near-miss programs for the yield and end-of-input side of liveness: yields (and plain actions) in `end` clauses,
    else clauses, handlers and behind optional blocks inside loops - places where a yield sits on a transition that
    does not consume input, or where end-of-input (which can never be consumed) may be matched again and again.
    The compiler must reject these, or feed()/end() must come to an end however often the caller re-invokes them.
    """
    r = rng
    a = chr(r.choice(LETTERS[:8]))
    b = chr(r.choice(LETTERS[8:16]))
    A = r.choice(('"%s"' % a, '/[%s%s]/' % (a, chr(ord(a) + 1)), '/%s+/' % a, '"%s%s"' % (a, b)))
    B = '"%s"' % b
    decl = ["out str[%d] s0;" % r.choice((2, 3)), "out int n0 = 0;", "out bool b0 = false;", "hook h0;", "yieldcode YA, YB;", "finishcode FA;"]
    y = lambda: r.choice(("yield YA;", "yield YA;", "yield YA; h0();", "h0(); yield YA;", "n0 = [n0 + 1]; yield YB;", "yield YA; yield YB;"))
    act = lambda: r.choice(("h0();", "n0 = [n0 + 1];", "b0 = true;", "", "delete s0;"))
    shapes = [
        "loop { case { %s -> { %s } end -> { %s } } }" % (A, act(), y()),
        "loop { case { %s -> { %s } end -> { %s } } }" % (A, y(), act()),
        "loop { case { %s -> { %s } end -> { %s } } }" % (A, act(), act()),
        "loop { case { %s -> { %s } end -> { %s } else -> { %s; } } }" % (A, act(), y(), B),
        "loop { %s; case { end -> { %s } else -> { %s } } }" % (A, y(), act()),
        "loop { case { %s -> { %s } else -> { %s } } }" % (A, act(), y()),
        "loop { optional { %s; } %s }" % (A, y()),
        "loop { try { %s; } catch (nomatch) { %s } }" % (A, y()),
        "loop { try { %s; %s; } catch (nomatch) { %s wait end; } }" % (A, B, y()),
        "%s; %s wait end; %s" % (A, y(), act()),
        "loop { %s; %s optional { %s; } }" % (A, y(), B),
        "loop { case { %s -> { %s } end -> { %s break; } } } %s" % (A, act(), y(), act()),
        "loop { case { %s -> { %s } end -> { %s finish FA; } } }" % (A, act(), y()),
        "loop { case { %s -> { %s } end -> { if n0 < 2 { n0 = [n0 + 1]; } %s } } }" % (A, act(), y()),
        "loop { greedy case { /[a-h]+/ -> { yield YA; } \" \" -> {} end -> { %s } } }" % y(),
        "try { loop { %s; } } catch (nomatch) { %s loop { case { end -> { %s } %s -> {} } } }" % (A, act(), y(), B),
        "foreach { loop { case { %s -> {} end -> { %s } } } } do { n0 = [n0 + 1]; }" % (A, y()),
        "loop { s0 += %s; case { end -> { %s } else -> {} } }" % (A if A.startswith("/") else "/%s/" % a, y()),
        # a yield behind an open-ended regex made of inverted sets: the else path that carries the yield stands for a *set* of
        # symbols ({terminator, end-of-input}) which the states behind it split
        "loop { /[^%s][^%s]*/; %s }" % (b, a, y()),
        "loop { /[^%s][^%s]*/; %s }" % (b, a, y()),
        "loop { /[^%s%s]+/; %s optional { %s; } }" % (a, b, y(), B),
        "loop { s0 += /[^%s][^%s]*/; %s }" % (b, a, y()),
    ]
    prog = r.choice(shapes)
    lead = r.choice(("", "", "%s; " % B))
    src = "\n".join(decl) + "\n\nparser {\n    " + lead + prog + "\n}\n"
    pfx = b.encode() if lead else b""
    aa = a.encode()
    bb = b.encode()
    samples = [pfx, pfx + aa, pfx + aa * 2, pfx + aa + bb, pfx + aa * 3 + bb, pfx + aa + bb + aa, pfx + b" ", pfx + aa + b" " + aa, pfx + bb,
               pfx + aa * 5, pfx + b"zz" + aa, pfx + b"z" + aa + b"z" + bb, pfx + b"zy" + aa + aa + b"x"]
    return {"source": src, "need": ["-fyield-support", "-feof-support"], "canaries": {}, "samples": [x.hex() for x in samples],
            "near_miss": True, "has_strings": True}


def generate_nearmiss_datadep(rng):
    """
    Near-miss programs whose possible non-consuming cycle is guarded by *data*: inside a loop, a path that consumes
    nothing (else clause, nomatch handler, skipped optional) runs an action-only if/elif chain whose branches leave
    the loop (break / finish) only for some values of the outputs; earlier bytes set those values up (a nesting depth,
    a quote flag, a string being empty or full).  C04 quantifies over every value of the output variables: the compiler
    must reject a program that can go round for some value, or the parser must not spin for any input.
    """
    r = rng
    up = chr(r.choice((40, 60, 91, 123)))          # ( < [ {
    down = {"(": ")", "<": ">", "[": "]", "{": "}"}[up]
    q = r.choice(("'", "`", "|"))
    x = chr(r.choice(LETTERS[:10]))
    cap = r.choice((2, 3))
    decl = ["out int n0 = 0;", "out int n1 = 0;", "out bool b0 = false;", "out str[%d] s0;" % (cap + 1), "hook h0;", "finishcode FA;"]
    want_yield = r.random() < 0.25
    if want_yield:
        decl.append("yieldcode YA;")
    setters = [
        ('"%s" -> { n0 = [n0 + 1]; }' % up, '"%s" -> { n0 = [n0 - 1]; }' % down, ["n0 == 0", "n0 < 1", "n0 != 1", "n0 > 1", "n0 == 2"]),
        ('"%s" -> { b0 = true; }' % up, '"%s" -> { b0 = false; }' % down, ["b0", "!b0"]),
        ('"%s" -> { if b0 { b0 = false; } else { b0 = true; } }' % q, '"%s" -> { n1 = [n1 + 1]; }' % x, ["!b0", "b0", "n1 == 2", "n1 > 0 && !b0"]),
        ('/[%s%s]/ -> { s0 += [$last]; }' % (up, x) if False else '"%s" -> { s0 += [65]; }' % up, '"%s" -> { delete s0; }' % down,
         ["s0.len == 0", "s0.len == %d" % cap, "s0.len > 0", "s0.len < %d" % cap]),
    ]
    c_up, c_down, conds = r.choice(setters)
    c1 = r.choice(conds)
    c2 = r.choice(conds + ["n1 == 0"])
    leave = lambda: r.choice(("break;", "break;", "finish;", "finish FA;"))
    chains = [
        "if %s { %s }" % (c1, leave()),
        "if %s { %s }" % (c1, leave()),
        "if %s { %s } elif %s { %s }" % (c1, leave(), c2, leave()),
        "if %s { %s } else { %s }" % (c1, leave(), leave()),
        "if %s { %s } else { n1 = [n1 + 1]; }" % (c1, leave()),
        "if %s { %s } else { \"%s\"; }" % (c1, leave(), x),
        "if %s { n1 = 0; %s }" % (c1, leave()),
        "if %s { if %s { %s } }" % (c1, c2, leave()),
        "if %s { h0(); } else { %s }" % (c1, leave()),
        "if %s { %s } h0();" % (c1, leave()),
        "n1 = [n1 + 1]; if %s { %s }" % (c1, leave()),
        "if %s { %s } if %s { %s }" % (c1, leave(), c2, leave()),
    ]
    if want_yield:
        chains += ["if %s { %s } else { yield YA; }" % (c1, leave()), "if %s { yield YA; %s }" % (c1, leave())]
    chain = r.choice(chains)
    other = chr(r.choice(DIGITS))
    shapes = [
        "loop { case { %s %s else -> { %s } } }" % (c_up, c_down, chain),
        "loop { case { %s %s \"%s\" -> {} else -> { %s } } }" % (c_up, c_down, other, chain),
        "loop lo { loop { case { %s %s else -> { %s } } } \"%s\"; }" % (c_up, c_down, chain.replace("break;", r.choice(("break;", "break lo;"))), other),
        "loop { try { case { %s %s } } catch (nomatch) { %s } }" % (c_up, c_down, chain),
        "loop { optional { case { %s %s } } %s }" % (c_up, c_down, chain),
        "loop { case { %s %s } %s }" % (c_up, c_down, chain),          # consuming body, chain behind it: legitimate
    ]
    # (an action behind a case with an else clause at the end of a loop body is an internal compiler error on the
    #  pinned tree - 'tuple' object has no attribute 'extend' - C18, not claimed: the shape is left out)
    prog = r.choice(shapes)
    if "break" not in chain:
        # nothing leaves the loop except finish: code behind the loop would be unreachable (a structural rejection)
        prog = r.choice(shapes[:2] + shapes[3:])
        tail = ""
    else:
        tail = r.choice(("\"%s%s;\";" % (x, x), "\"%s\"; h0();" % x, "wait \";\";", ""))
    src = "\n".join(decl) + "\n\nparser {\n    " + prog + "\n    " + tail + "\n}\n"
    U, D, X, Q, O = up.encode(), down.encode(), x.encode(), q.encode(), other.encode()
    samples = [X + X + b";", U + X, U + U + D + X, U + D + X + X + b";", Q + X, Q + X + Q + X + X + b";", X * 3, U * (cap + 1) + X,
               U * cap + X + b";", U + O + X, D + X, U + D + D + X, X + X + Q, U + b"\x00", b"\xff", O + X]
    return {"source": src, "need": ["-fyield-support"] if want_yield else [], "canaries": {}, "samples": [z.hex() for z in samples],
            "near_miss": True, "has_strings": True}


# ------------------------------------------------------------------ richer regexes (Glushkov first/last/follow)

class RNode:
    """tiny regex AST: kinds lit(chars) cat(a,b) alt(a,b) opt(a) star(a) plus(a) rep(a,n,m)"""

    def __init__(self, kind, *kids, chars=None, n=None, m=None, text=None):
        self.kind, self.kids, self.chars, self.n, self.m, self.text = kind, kids, chars, n, m, text


def _rx_text(n):
    k = n.kind
    if k == "lit":
        return n.text
    if k == "cat":
        return "".join(_rx_wrap(x, "cat") for x in n.kids)
    if k == "alt":
        return "|".join(_rx_text(x) for x in n.kids)
    sub = _rx_wrap(n.kids[0], "post")
    if k == "opt":
        return sub + "?"
    if k == "star":
        return sub + "*"
    if k == "plus":
        return sub + "+"
    if k == "rep":
        return sub + ("{%d}" % n.n if n.m == n.n else "{%d,%d}" % (n.n, n.m))
    raise ValueError(k)


def _rx_wrap(n, ctx):
    t = _rx_text(n)
    if n.kind == "alt" or (ctx == "post" and n.kind in ("cat", "opt", "star", "plus", "rep")):
        return "(" + t + ")"
    return t


def _rx_analyse(n):
    """returns (nullable, first:set, last_positions, and fills follow) using position objects = lit nodes"""
    k = n.kind
    if k == "lit":
        n.follow = set()
        return False, {n}, {n}
    if k == "cat":
        nul, first, last = True, set(), set()
        for x in n.kids:
            xn, xf, xl = _rx_analyse(x)
            for p in last:
                p.follow |= xf
            if nul:
                first |= xf
            last = (last | xl) if xn else set(xl)
            nul = nul and xn
        return nul, first, last
    if k == "alt":
        nul, first, last = False, set(), set()
        for x in n.kids:
            xn, xf, xl = _rx_analyse(x)
            nul, first, last = nul or xn, first | xf, last | xl
        return nul, first, last
    xn, xf, xl = _rx_analyse(n.kids[0])
    if k == "opt":
        return True, xf, xl
    if k in ("star", "plus") or (k == "rep" and n.m > 1):
        if k in ("star", "plus"):
            for p in xl:
                p.follow |= xf
            return (True if k == "star" else xn), xf, xl
        # bounded repeat: treat as repeatable for first/follow purposes (over-approximation of `open`)
        for p in xl:
            p.follow |= xf
        return (xn or n.n == 0), xf, xl
    return (xn or n.n == 0), xf, xl


def _rx_sample(r, n, depth=0):
    k = n.kind
    if k == "lit":
        return bytes([r.choice(sorted(n.chars))])
    if k == "cat":
        return b"".join(_rx_sample(r, x, depth) for x in n.kids)
    if k == "alt":
        return _rx_sample(r, r.choice(n.kids), depth)
    if k == "opt":
        return _rx_sample(r, n.kids[0], depth) if r.random() < 0.6 else b""
    if k == "star":
        return b"".join(_rx_sample(r, n.kids[0], depth) for _ in range(r.choice((0, 1, 2, 3))))
    if k == "plus":
        return b"".join(_rx_sample(r, n.kids[0], depth) for _ in range(r.choice((1, 1, 2, 3))))
    if k == "rep":
        return b"".join(_rx_sample(r, n.kids[0], depth) for _ in range(r.randint(n.n, n.m)))
    raise ValueError(k)


def rich_regex(r, blocked, depth=3):
    """random regex with nested groups / nullable parts; returns Atom or None"""
    pool = [c for c in LETTERS[:10] + DIGITS[:4] + [ord(" "), ord("+"), ord("-")] if c not in blocked]
    if len(pool) < 4:
        return None

    def leaf():
        k = r.random()
        if k < 0.5:
            c = r.choice(pool)
            return RNode("lit", chars={c}, text=esc_re_char(c))
        if k < 0.7 and all(d in pool for d in DIGITS[:4]):
            return RNode("lit", chars=set(DIGITS), text="\\d") if not (set(DIGITS) & blocked) else leaf()
        a = r.choice(pool)
        b = r.choice(pool)
        cs = {a, b}
        return RNode("lit", chars=cs, text="[%s]" % "".join(esc_set_char(c) for c in sorted(cs)))

    def build(d):
        if d <= 0 or r.random() < 0.25:
            return leaf()
        if d >= 2 and r.random() < 0.2:
            # an optional / repeated group around something that is already nullable: (x*)?  (x?)?  (a?|b*)  (x?){1,2}
            inner = RNode(r.choice(("star", "opt")), build(d - 2))
            if r.random() < 0.3:
                inner = RNode("alt", inner, RNode(r.choice(("star", "opt")), leaf()))
            if r.random() < 0.3:
                return RNode("rep", inner, n=1, m=r.choice((2, 3)))
            return RNode(r.choice(("opt", "opt", "star")), inner)
        k = r.choice(("cat", "cat", "alt", "opt", "opt", "star", "plus", "rep"))
        if k == "cat":
            return RNode("cat", *[build(d - 1) for _ in range(r.choice((2, 2, 3)))])
        if k == "alt":
            return RNode("alt", build(d - 1), build(d - 1))
        if k == "rep":
            n = r.choice((1, 2))
            return RNode("rep", build(d - 1), n=n, m=n + r.choice((0, 1, 2)))
        return RNode(k, build(d - 1))

    for _ in range(6):
        node = build(depth)
        nul, first, last = _rx_analyse(node)
        if nul:
            c = r.choice(pool)
            node = RNode("cat", node, RNode("lit", chars={c}, text=esc_re_char(c)))
            nul, first, last = _rx_analyse(node)
        fchars = set().union(*[p.chars for p in first]) if first else set()
        if not fchars or (fchars & blocked):
            continue
        ochars = set()
        for p in last:
            for q in p.follow:
                ochars |= q.chars
        text = "/" + _rx_text(node) + "/"
        if len(text) > 60:
            continue
        return Atom(text, fchars, ochars, _rx_sample(r, node))
    return None


# ------------------------------------------------------------------ string lifecycle programs (C03 / C12)

def generate_lifecycle(rng, noindex=False):
    """
    Programs about the allocation lifecycle of string outputs: defaults, deletes in every
    kind of place (plain, inside action-only if/else, right after a loop left through a
    conditional break, in a case clause, in a catch handler), followed by uses of the
    same string (append match, char append, constant assignment, index read, length).
    """
    r = rng
    g = Gen(r, want_yield=False, want_eof=r.random() < 0.2, bias={"noindex": False})
    decl = []
    strs = []
    for i in range(r.choice((1, 2, 2))):
        size = r.choice((3, 4, 6, 9, 12, 16))
        unterm = r.random() < 0.2
        cap = size if unterm else size - 1
        d = "out %sstr[%d] s%d" % ("unterminated " if unterm else "", size, i)
        if r.random() < 0.65:
            d += " = " + esc_str([r.choice(LETTERS) for _ in range(r.randrange(0, cap + 1))])
        elif r.random() < 0.25:
            # text constants with control bytes and bytes >= 0x80 (own stream of draws: only taken when no plain default was)
            d += " = " + esc_str([r.choice((0xe9, 0xff, 0x80, 10, 0, 65, 102)) for _ in range(r.choice((1, cap // 2, cap)))])
        decl.append(d + ";")
        strs.append({"name": "s%d" % i, "size": size, "unterm": unterm, "cap": cap})
        decl.append("out int{size 1} zc%d = 90;" % i)
        g.canaries["zc%d" % i] = 90
    wide = r.random() < 0.5
    decl += ["out int n0 = 0;", "out int%s n1 = 0;" % ("{size 8}" if wide else r.choice(("", "{size 2}", "{unsigned}"))),
             "out bool b0 = false;", "hook h0;", "hook h1;"]
    body = []
    sample = b""
    marks = [c for c in PUNCT]
    r.shuffle(marks)
    for ep in range(r.choice((2, 3, 4))):
        s = r.choice(strs)
        name = s["name"]
        m = marks[ep % len(marks)]
        body.append("%s;" % esc_str([m]))
        sample += bytes([m])
        place = r.choice(("plain", "if", "ifelse", "afterloop", "case", "handler", "none", "twice"))
        if place == "plain":
            body.append("delete %s;" % name)
        elif place == "twice":
            body += ["delete %s;" % name, "delete %s;" % name]
        elif place == "if":
            body += ["n0 = [$last];", "if n0 == %d { delete %s; }" % (m, name)]
        elif place == "ifelse":
            body += ["if b0 { n1 = 1; } else { delete %s; b0 = true; }" % name]
        elif place == "afterloop":
            body += ["n1 = 0;", "loop { /[0-9]/; n1 = [n1 + 1]; if n1 == 2 { break; } }", "delete %s;" % name]
            sample += bytes(r.choice(DIGITS) for _ in range(2))
        elif place == "case":
            a, b = r.sample(LETTERS[:6], 2)
            body += ["case { %s -> { delete %s; } %s -> { n0 = 1; } }" % (esc_str([a]), name, esc_str([b]))]
            sample += bytes([r.choice((a, a, b))])
        elif place == "handler":
            a = r.choice(LETTERS[6:12])
            body += ["try { %s += /[%s]+/; \"|\"; } catch (outofspace) { delete %s; wait \"|\"; }" % (name, chr(a), name)]
            sample += bytes([a]) * r.choice((1, s["cap"], s["cap"] + 2)) + b"|"
        for _ in range(r.choice((1, 2))):
            use = r.choice(("append", "append", "appc", "assign", "len" if noindex else "index", "len", "hook",
                            "hook" if noindex else "indexvar", "highbyte", "assignread", "assignesc"))
            if use == "append":
                lo = r.choice((97, 103, 109))
                body.append("%s += /[%s-%s]+/;" % (name, chr(lo), chr(lo + 5)))
                body.append("\".\";")
                sample += bytes(r.randint(lo, lo + 5) for _ in range(r.choice((1, 2, s["cap"], s["cap"] + 1)))) + b"."
            elif use == "appc":
                body.append("%s += [%s];" % (name, r.choice(("65", "$last", "n0 + 48"))))
            elif use == "assign":
                body.append("%s = %s;" % (name, esc_str([r.choice(LETTERS) for _ in range(r.randrange(0, s["cap"] + 1))])))
            elif use == "assignesc":
                # constants with control bytes, NUL, hex-digit characters behind an escape, bytes >= 0x80; length (in
                # characters) up to the capacity - whatever the constant denotes, it must fit or be refused
                body.append("%s = %s;" % (name, esc_str([r.choice((0xe9, 0xff, 0x80, 0xc3, 10, 9, 0, 1, 65, 102, 48)) for _ in range(r.choice((1, 2, max(1, s["cap"] // 2), s["cap"])))])))
                body.append("if %s.len > 0 { h1(); }" % name)
            elif use == "index":
                body.append("n1 = [%s[%d] + %s.len];" % (name, r.choice((0, 1, s["size"] - 1)), name))
            elif use == "assignread":
                # a constant of known length, then reads at positions inside that length (also beyond index 7)
                L = r.randrange(1, s["cap"] + 1)
                body.append("%s = %s;" % (name, esc_str([r.choice(LETTERS) for _ in range(L)])))
                body.append("n0 = [%s[%d] + %s[%d]];" % (name, L - 1, name, r.randrange(0, L)))
                body.append("if %s[%d] > 100 { h1(); }" % (name, L - 1))
            elif use == "highbyte":
                # store a byte >= 0x80 and read it back through an index that is inside the current length:
                # the value must not depend on whether strings are char or uint8_t
                body.append("delete %s;" % name)
                body.append("%s += [%d];" % (name, r.choice((128, 200, 255))))
                body.append("n0 = [%s[0] + 1];" % name)
                body.append("if %s[0] > 100 { h1(); }" % name)
            elif use == "indexvar":
                # an index computed at run time, below zero or beyond the end: the bounds check must make it read 0
                body.append("n0 = [%s[n1 %s %d] + 1];" % (name, r.choice(("-", "-", "+")), r.choice((1, 3, 8, 300, 70000))))
            elif use == "len":
                body.append("if %s.len > 0 { h1(); }" % name)
            else:
                body.append("h0();")
        body.append("h0();")
    if r.random() < 0.4:
        body = ["loop {"] + ["    " + x for x in body] + ["}"]
        sample = sample * 2
    src = "\n".join(decl) + "\n\nparser {\n" + "\n".join("    " + x for x in body) + "\n}\n"
    need = ["-feof-support"] if g.want_eof else []
    return {"source": src, "need": need, "canaries": dict(g.canaries), "samples": [sample.hex(), (sample[: len(sample) // 2]).hex()],
            "near_miss": False, "has_strings": True}


# ------------------------------------------------------------------ regex-centric programs (C20 and others)

def generate_regexprog(rng):
    """small programs whose behaviour is dominated by one to three non-trivial regexes"""
    r = rng
    decl = ["out str[12] s0;", "out int n0 = 0;", "hook h0;"]
    body = []
    sample = b""
    samples = []
    marks = [ord(c) for c in ";#@!"]
    blocked = set()
    for k in range(r.choice((1, 2, 2, 3))):
        a = None
        if r.random() < 0.2:
            # a regex with unescaped blanks between words: the documentation asks for `\ `, but the compiler accepts
            # the text, and whatever it decides the blanks mean it has to decide the same way every time
            words = [bytes(r.choice(LETTERS[:12]) for _ in range(r.choice((1, 2, 3)))) for _ in range(r.choice((2, 3, 4)))]
            txt = "/" + " ".join(w.decode() for w in words) + "/"
            a = Atom(txt, {words[0][0]}, set(), b" ".join(words))
            extra = b"".join(words)
            m = marks[k]
            body.append(("s0 += %s;" if r.random() < 0.5 else "%s;") % a.text)
            body.append("%s;" % esc_str([m]))
            body.append("h0();")
            samples.append(sample + extra + bytes([m]))
            samples.append(sample + words[0] + b" " + b"".join(words[1:]) + bytes([m]))
            sample += a.sample + bytes([m])
            samples.append(sample)
            continue
        for _ in range(10):
            a = rich_regex(r, blocked | set(marks), depth=r.choice((2, 3, 3)))
            if a is not None and not (a.open & set(marks)):
                break
            a = None
        if a is None:
            continue
        m = marks[k]
        body.append(("s0 += %s;" if r.random() < 0.5 else "%s;") % a.text)
        body.append("%s;" % esc_str([m]))
        body.append(r.choice(("h0();", "n0 = [n0 + 1];", "h0();")))
        sample += a.sample + bytes([m])
        samples.append(sample)
        blocked = set()
    if not body:
        body = ['"a";']
        sample = b"a"
    if r.random() < 0.4:
        body = ["loop {"] + ["    " + x for x in body] + ["}"]
        samples.append(sample * 2)
    src = "\n".join(decl) + "\n\nparser {\n" + "\n".join("    " + x for x in body) + "\n}\n"
    return {"source": src, "need": [], "canaries": {}, "samples": [s.hex() for s in samples[-6:]] or [sample.hex()], "near_miss": False,
            "has_strings": True}


# ------------------------------------------------------------------ greedy-case centred programs (priority ties)

def generate_greedyprog(rng):
    """
    Programs around greedy cases whose arms only carry actions.  Keywords get random priorities,
    so a share of the programs contains a tie between two patterns that can finish on the same
    string - those must be rejected, and in the same way by every compilation.
    Two layouts: a tokenizer loop with yielding arms, and a sequence of greedy-case sites each
    followed by a terminator (arms assign an output).
    """
    r = rng
    lo = r.choice((97, 105))
    cls = list(range(lo, lo + 8))

    def keywords():
        kws = []
        for _ in range(r.choice((1, 2, 2, 3))):
            kw = bytes(r.choice(cls) for _ in range(r.choice((2, 3))))
            if kw not in kws:
                kws.append(kw)
        return kws

    if r.random() < 0.4:
        kws = keywords()
        codes = ["T0", "T1", "T2"] + ["K%d" % i for i in range(len(kws))]
        arm = lambda i: "{ yield %s; }" % codes[i]
        L = ["out int n0 = 0;", "yieldcode %s;" % ", ".join(codes), "", "parser {", "    loop {", "        greedy case {",
             "            /[%s-%s]+/ -> %s" % (chr(cls[0]), chr(cls[-1]), arm(0)),
             "            \"(\" -> %s" % arm(1),
             "            /\\d+/ -> %s" % arm(2)]
        for i, kw in enumerate(kws):
            p = r.choice(("", "prio 1 ", "prio 1 ", "prio 2 "))
            L.append("            %s%s -> %s" % (p, esc_str(kw), arm(3 + i)))
        L += ["            \" \" -> {}", "        }", "    }", "}"]
        parts = [r.choice(kws + [bytes(r.choice(cls) for _ in range(2)), b"(", b"12"]) for _ in range(r.choice((2, 4, 6)))]
        smp = b" ".join(parts) + b" "
        return {"source": "\n".join(L) + "\n", "need": ["-fyield-support"], "canaries": {}, "samples": [smp.hex(), (kws[0] + b" ").hex()],
                "near_miss": False, "has_strings": False}
    nsites = r.choice((1, 2, 3, 4))
    L = ["out int n%d = 0;" % i for i in range(nsites)] + ["hook h0;", "", "parser {"]
    smp = b""
    samples = []
    for i in range(nsites):
        kws = keywords()
        L.append("    greedy case {")
        L.append("        /[%s-%s]+/ -> { n%d = 1; }" % (chr(cls[0]), chr(cls[-1]), i))
        for j, kw in enumerate(kws):
            p = r.choice(("", "", "prio 1 ", "prio 1 ", "prio 2 "))
            L.append("        %s%s -> { n%d = %d; }" % (p, esc_str(kw), i, j + 2))
        L += ["    }", "    \";\";", "    h0();"]
        smp += r.choice(kws + [bytes(r.choice(cls) for _ in range(3))]) + b";"
        samples.append(smp)
    L.append("}")
    return {"source": "\n".join(L) + "\n", "need": [], "canaries": {}, "samples": [x.hex() for x in samples[-2:]],
            "near_miss": False, "has_strings": False}


# ------------------------------------------------------------------ macro-centred programs (C20)

def generate_macroprog(rng):
    """
    Programs whose behaviour depends on macro argument binding: nested macros that reuse a
    parameter name, parameters named like globals that are also used directly before or after
    the call, match / expr / hook / out parameters.  Name resolution is exactly the kind of
    compile-time state that must not leak between expansions, compilations or environments.
    """
    r = rng
    outs = ["a0", "b0", "c0"]
    decl = ["out str[8] a0;", "out str[8] b0;", "out str[8] c0;", "out int n0 = 0;", "out int n1 = 0;", "hook h0;", "hook h1;"]
    cls = [("a", "f"), ("g", "l"), ("0", "9"), ("m", "t")]
    macros = []
    # inner: out + match; the parameter is named like a global (or like the outer macro's parameter)
    p_in = r.choice(outs + ["dest"])
    macros.append("macro put(out %s, match m) { %s += m; }" % (p_in, p_in))
    p_out = r.choice(outs + ["dest", p_in])
    q_out = r.choice([x for x in outs + ["other"] if x != p_out])
    c1, c2 = r.sample(cls, 2)
    macros.append("macro pair(out %s, out %s) { put(%s, /[%s-%s]+/); \"=\"; put(%s, /[%s-%s]+/); }" % (
        p_out, q_out, q_out, c1[0], c1[1], p_out, c2[0], c2[1]))
    macros.append("macro bump(out n0, expr e, hook hk) { n0 = [n0 + e]; hk(); }")
    body = []
    smp = b""
    sample_of = lambda c: bytes(r.randint(ord(c[0]), ord(c[1])) for _ in range(r.choice((1, 2, 3))))
    tgt = r.sample(outs, 3)
    for k in range(r.choice((2, 3, 4))):
        kind = r.choice(("direct", "pair", "put", "bump"))
        sep = r.choice(",;:")
        if kind == "direct":
            c = r.choice(cls)
            body.append("%s += /[%s-%s]+/;" % (r.choice(outs), c[0], c[1]))
            smp += sample_of(c)
        elif kind == "pair":
            body.append("pair(%s, %s);" % (tgt[0], tgt[1]))
            smp += sample_of(c1) + b"=" + sample_of(c2)
        elif kind == "put":
            c = r.choice(cls)
            body.append("put(%s, /[%s-%s]+/);" % (r.choice(outs), c[0], c[1]))
            smp += sample_of(c)
        else:
            body.append("bump(%s, %s, %s);" % (r.choice(("n0", "n1")), r.choice(("1", "[n1 + 2]", "[$last]")), r.choice(("h0", "h1"))))
        body.append("\"%s\";" % sep)
        smp += sep.encode()
        if r.random() < 0.4:
            body.append("h0();")
    src = "\n".join(decl + macros) + "\n\nparser {\n" + "\n".join("    " + x for x in body) + "\n}\n"
    return {"source": src, "need": [], "canaries": {}, "samples": [smp.hex(), smp[: len(smp) // 2].hex()], "near_miss": False, "has_strings": True}
