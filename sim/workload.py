"""
Workload assembly: corpus programs, generated programs, option sets (swarm style).
"""
import glob
import os
import re
import shlex

from . import gen_random, inputs as inputs_mod, sched


def corpus(tree="/repo"):
    """[(label, source, base_argv)] of every complete program shipped with the repository."""
    out = []
    files = sorted(glob.glob(os.path.join(tree, "example", "*.nmfu"))) + \
        sorted(glob.glob(os.path.join(tree, "example", "test", "*.ok.nmfu")))
    for f in files:
        try:
            src = open(f).read()
        except OSError:
            continue
        l0 = src.splitlines()[0] if src else ""
        args = shlex.split(l0[len("// args: "):]) if l0.startswith("// args: ") else []
        out.append((os.path.relpath(f, tree), src, args))
    # documentation snippets that are complete programs
    for md in sorted(glob.glob(os.path.join(tree, "docs", "*", "*.md"))):
        try:
            text = open(md).read()
        except OSError:
            continue
        for k, m in enumerate(re.finditer(r"```nmfu\n(.*?)```", text, re.S)):
            body = m.group(1)
            if re.search(r"^parser\s*\{", body, re.M):
                out.append(("%s#%d" % (os.path.relpath(md, tree), k), body, []))
    return out


def must_reject_corpus(tree="/repo"):
    out = []
    for f in sorted(glob.glob(os.path.join(tree, "example", "test", "*.fail.nmfu"))):
        src = open(f).read()
        l0 = src.splitlines()[0] if src else ""
        args = shlex.split(l0[len("// args: "):]) if l0.startswith("// args: ") else []
        out.append((os.path.relpath(f, tree), src, args))
    return out


STORAGE = ([], ["-fallocate-str-space-dynamic"], ["-fallocate-str-space-dynamic-on-demand"],
           ["-fallocate-str-space-dynamic-on-demand", "-fdelete-string-free-memory"])


def sample_argv(rng, base=(), need=(), level=None, force=None, avoid=()):
    """
    Swarm-style option set.  base: the program's own '// args:' line; need: flags the
    program requires (yield / eof support).  force: dict of dimension -> value.
    """
    force = force or {}
    argv = list(base)
    has_O = any(a.startswith("-O") for a in argv)
    lvl = force.get("O", level)
    if lvl is None:
        lvl = rng.choice((0, 1, 1, 2, 3, 3))
    if not has_O or "O" in force:
        argv = [a for a in argv if not a.startswith("-O")] + ["-O%d" % lvl]
    for n in need:
        if n not in argv:
            argv.append(n)

    def flip(dim, flag, p):
        v = force.get(dim)
        if v is None:
            v = rng.random() < p
        if v and flag not in argv and flag not in avoid:
            argv.append(flag)

    flip("indirect", "-findirect-start-ptr", 0.6)
    flip("eof", "-feof-support", 0.35)
    flip("zero", "-fzero-len-input-support", 0.3)
    flip("strict", "-fstrict-done-token-generation", 0.3)
    st = force.get("storage")
    if st is None:
        st = rng.randrange(4)
    if not any(a.startswith("-fallocate-str-space") for a in argv):
        for f in STORAGE[st]:
            if f not in argv and f not in avoid:
                argv.append(f)
    flip("u8", "-fstrings-as-u8", 0.25)
    flip("perstate", "-fhook-per-state", 0.25)
    flip("userptr", "-finclude-user-ptr", 0.15)
    flip("packed", "-fuse-packed-enums", 0.15)
    flip("pragma", "-fuse-pragma-once", 0.1)
    flip("nocpp", "-fno-use-cplusplus-guard", 0.1)
    crl = force.get("crl")
    if crl is None and rng.random() < 0.25:
        crl = rng.choice((2, 3, 6, 255))
    if crl is not None and "--collapsed-range-length" not in argv:
        argv += ["--collapsed-range-length", str(crl)]
    return argv


def corpus_unit(entry, argv):
    label, src, base = entry
    return {"label": label, "source": src, "argv": argv,
            "seeds": [s.hex() for s in inputs_mod.corpus_strings(src)]}


def generated_unit(root, idx, bias=None, stream="program", **kw):
    rng = sched.rng_for(root, stream, idx)
    if kw.pop("nearmiss", False):
        return gen_random.generate_nearmiss(rng)
    if kw.pop("nearmiss4", False):
        return gen_random.generate_nearmiss_datadep(rng)
    if kw.pop("nearmiss3", False):
        return gen_random.generate_nearmiss_yieldend(rng)
    if kw.pop("nearmiss2", False):
        return gen_random.generate_nearmiss_negclass(rng)
    if kw.pop("macroprog", False):
        return gen_random.generate_macroprog(rng)
    if kw.pop("greedyprog", False):
        return gen_random.generate_greedyprog(rng)
    if kw.pop("regexprog", False):
        return gen_random.generate_regexprog(rng)
    if kw.pop("lifecycle", False):
        return gen_random.generate_lifecycle(rng, noindex=kw.pop("noindex", False))
    p = gen_random.generate(rng, bias=bias or {}, **kw)
    return p
