"""
Seeded scheduler: turns (input length, build capabilities, PRNG) into explicit
op scripts for the driver.  All randomness is resolved here; the driver only
executes.  One integer (VERIF_SEED) decides everything: every stream is
derived by hashing (root, stream name, index).
"""
import hashlib
import random


def rng_for(root, stream, index=0):
    h = hashlib.sha256(("%s/%s/%s" % (root, stream, index)).encode()).digest()
    return random.Random(int.from_bytes(h[:8], "big"))


FAULT_KINDS = ("cut", "zero", "eof", "post", "retail", "reloc", "restart", "dfree", "ilv", "ystop")


class Caps:
    """What the build under simulation supports (from resolved flags)."""

    def __init__(self, flags):
        self.indirect = flags["INDIRECT_START_PTR"]
        self.yields = flags["YIELD_SUPPORT"]
        self.has_end = flags["EOF_SUPPORT"]
        self.has_free = flags["DYNAMIC_MEMORY"]
        self.zero_len = flags["ZERO_LEN_INPUT_SUPPORT"]
        # False for programs that read strings by index: an index beyond the current length legitimately shows what
        # the storage held before start(), so a restarted session is then given a zeroed struct like a fresh one
        self.poison_restart = True


def canonical_ops(n, caps, fill=0, sid=0):
    """One byte per call, yields re-invoked on the same buffer, EOF forked before every
    invocation, memory laws checked after every invocation."""
    fl = ("e" if caps.has_end else "") + "k"
    ops = ["OP %d START %d" % (sid, fill), "OP %d CHECK 0" % sid]
    for i in range(n):
        ops.append("OP %d FEED %d %d 0 %s" % (sid, i, i + 1, fl))
    if caps.has_end:
        ops.append("OP %d FORK_END" % sid)
    if caps.has_free:
        ops.append("OP %d FREE" % sid)
        ops.append("OP %d CHECK 1" % sid)
    return ops


def cuts_from_mask(n, mask):
    """bit i set => cut between byte i and i+1 (i in 0..n-2)."""
    cuts = [0]
    for i in range(n - 1):
        if (mask >> i) & 1:
            cuts.append(i + 1)
    cuts.append(n)
    return cuts


def random_cuts(rng, n, style=None, hot=()):
    """hot: offsets where something happened in the canonical pass (event, yield, append,
    out-of-space, terminal) - schedules are biased to cut right at / after them."""
    if n <= 1:
        return [0, n] if n else [0, 0]
    style = style or rng.choice(("geo", "geo", "geo", "single", "hot", "pairs", "whole", "bigsmall"))
    cuts = {0, n}
    if style == "whole":
        pass
    elif style == "single":
        cuts.add(rng.randrange(1, n))
    elif style == "geo":
        p = rng.choice((0.08, 0.2, 0.35, 0.6, 0.9))
        for i in range(1, n):
            if rng.random() < p:
                cuts.add(i)
    elif style == "pairs":
        i = 0
        while i < n:
            i += rng.choice((1, 2, 2, 3))
            if i < n:
                cuts.add(i)
    elif style == "bigsmall":
        i = 0
        while i < n:
            i += rng.choice((1, 1, 7, 13, 29))
            if i < n:
                cuts.add(i)
    elif style == "hot":
        for h in hot:
            for d in (0, 1):
                if 0 < h + d < n and rng.random() < 0.7:
                    cuts.add(h + d)
        if len(cuts) == 2:
            cuts.add(rng.randrange(1, n))
    return sorted(cuts)


def scheduled_ops(rng, n, caps, cuts, faults, sid=0, fill=0, final_end=True):
    """
    Build the op list of one session.  faults: set of enabled fault kinds for this run.
    Returns (ops, fired) where fired counts the fault ops actually emitted.
    """
    fired = {k: 0 for k in FAULT_KINDS}
    ops = ["OP %d START %d" % (sid, fill)]
    nchunks = len(cuts) - 1
    fired["cut"] += max(0, nchunks - 1)
    restart_at = None
    if "restart" in faults and nchunks >= 1 and rng.random() < 0.5:
        restart_at = rng.randrange(0, nchunks)
    eof_p = rng.choice((0.1, 0.3, 0.7)) if "eof" in faults else 0.0
    reloc_p = rng.choice((0.1, 0.3, 0.8)) if "reloc" in faults else 0.0
    zero_p = rng.choice((0.1, 0.3)) if ("zero" in faults and caps.zero_len) else 0.0
    for ci in range(nchunks):
        lo, hi = cuts[ci], cuts[ci + 1]
        if lo == hi:
            continue
        modes = "0"
        if caps.yields:
            if "ystop" in faults and rng.random() < 0.35:
                modes = "2"
            elif "retail" in faults:
                modes = rng.choice(("1", "01", "10", "0", "110"))
        ops.append("OP %d FEED %d %d %s -" % (sid, lo, hi, modes))
        if modes == "2":
            fired["ystop"] += 1
            for _ in range(rng.choice((1, 2, 3))):
                if caps.has_end and rng.random() < 0.6:
                    ops.append("OP %d FORK_END" % sid)
                    fired["eof"] += 1
                if rng.random() < 0.5:
                    ops.append("OP %d RELOCATE" % sid)
                    fired["reloc"] += 1
                ops.append("OP %d CONT 2 -" % sid)
            ops.append("OP %d CONT %s -" % (sid, "1" if "retail" in faults and rng.random() < 0.5 else "0"))
        if "retail" in modes or "1" in modes:
            fired["retail"] += 1
        if rng.random() < reloc_p:
            ops.append("OP %d RELOCATE" % sid)
            fired["reloc"] += 1
        if caps.has_end and rng.random() < eof_p:
            ops.append("OP %d FORK_END" % sid)
            fired["eof"] += 1
        if rng.random() < zero_p:
            ops.append("OP %d FEED0 %d" % (sid, hi))
            fired["zero"] += 1
        if "check" in faults:
            ops.append("OP %d CHECK 0" % sid)
        if restart_at is not None and ci == restart_at:
            # abandon mid-stream and start again on the same struct
            if caps.has_free:
                ops.append("OP %d FREE" % sid)
                ops.append("OP %d CHECK 1" % sid)
            fired["restart"] += 1
            # the restarted struct is not a pristine one: scalars are re-zeroed by the caller, string storage, counters and
            # heap pointers hold garbage (poison 170), so whatever start() forgets to set up is visible in the new session
            sub, f2 = scheduled_ops(rng, n, caps, random_cuts(rng, n), faults - {"restart"}, sid,
                                     fill if (fill > 0 or not caps.poison_restart) else 170, final_end)
            for k in f2:
                fired[k] += f2[k]
            return ops + sub, fired
    if "post" in faults:
        fired["post"] += 1
    if caps.has_end and final_end:
        if "eof" in faults and rng.random() < 0.5:
            ops.append("OP %d FORK_END" % sid)
            fired["eof"] += 1
        ops.append("OP %d END" % sid)
        fired["eof"] += 1
        if "post" in faults and rng.random() < 0.5:
            ops.append("OP %d END" % sid)
    if caps.has_free:
        ops.append("OP %d FREE" % sid)
        ops.append("OP %d CHECK 1" % sid)
        if "dfree" in faults and rng.random() < 0.5:
            ops.append("OP %d FREE" % sid)
            ops.append("OP %d CHECK 1" % sid)
            fired["dfree"] += 1
    return ops, fired


def interleave(rng, op_lists):
    """Merge several sessions' op lists call by call, preserving each session's order."""
    idx = [0] * len(op_lists)
    out = []
    live = [i for i in range(len(op_lists)) if op_lists[i]]
    while live:
        i = rng.choice(live)
        burst = rng.choice((1, 1, 2, 3))
        for _ in range(burst):
            if idx[i] < len(op_lists[i]):
                out.append(op_lists[i][idx[i]])
                idx[i] += 1
        live = [j for j in live if idx[j] < len(op_lists[j])]
    return out


def run_text(rid, inputs, ops):
    """inputs: {sid: bytes}"""
    lines = ["RUN %d" % rid]
    for sid in sorted(inputs):
        lines.append("IN %d %s" % (sid, inputs[sid].hex() if inputs[sid] else "-"))
    lines.extend(ops)
    lines.append("ENDRUN")
    return lines
