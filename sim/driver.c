/*
 * driver.c -- deterministic op-script executor for nmfu-generated parsers.
 *
 * The simulated caller.  All randomness has been resolved by the Python
 * scheduler; this program only executes an explicit script and prints a trace.
 * It is linked against the generated parser (built with ASan/UBSan and
 * -fsanitize-coverage=trace-pc-guard) and a per-program shim (hook stubs,
 * snapshot/check/clone helpers).
 *
 * Simulated time: one tick per basic-block edge of the generated file.  When
 * a call exceeds its tick budget the driver switches to exact configuration
 * repeat detection; a proven repeat is reported as SPIN, never a wall clock.
 *
 * Script (one item per line):
 *   RUN <id>
 *   IN <sid> <hex|->                input stream of session sid
 *   OP <sid> START <fill>           struct zeroed; fill > 0: string storage/counters/heap pointers poisoned with fill; -1 keep bytes
 *   OP <sid> FEED <lo> <hi> <modes> <flags>
 *   OP <sid> CONT <modes> <flags>   continue a chunk left pending by mode 2
 *   OP <sid> FEED0
 *   OP <sid> END
 *   OP <sid> FORK_END
 *   OP <sid> RELOCATE
 *   OP <sid> FREE
 *   OP <sid> CHECK <phase>
 *   ENDRUN
 * modes: digits consumed cyclically, one per yield return inside the op:
 *   0 re-invoke on the same buffer, 1 move the unconsumed tail to a new buffer
 *   (old one freed first) and re-invoke, 2 stop and leave the chunk pending.
 * flags: '-' or letters: e = FORK_END before every invocation,
 *                        k = CHECK after every invocation.
 *
 * Trace lines:
 *   R <id>
 *   H <op> <sid> <hook> <inval> <pos> <snap>     (h: same, fired on a forked clone during FORK_END)
 *   C <op> <sid> <KIND> <code> <pos> <ticks> <state> <snap>
 *       KIND: START FEED REFEED REFEED1 FEED0 END FEND FREE; ENDC/FENDC = re-invocation of end() after it returned a yield code
 *   K <op> <sid> <n> <messages>          (only when a memory law is violated)
 *   X <op> <sid> <SPIN|SLOW|LIVELOCK|YSLOW> <detail>
 *   L <op> <sid> <nblocks> <bytes>       (blocks allocated by generated code still live after FREE)
 *   W <op> <sid> <text>                  (script/protocol inconsistency: harness side)
 *   Q <id>
 *   V <guards> <hit>
 */
#define _GNU_SOURCE
#include <stdio.h>
#include <stdlib.h>
#include <string.h>
#include <stdint.h>
#include <setjmp.h>
#include <signal.h>
#include <unistd.h>

/* ------------------------------------------------------------------ shim interface */
extern const int shim_indirect, shim_has_end, shim_has_free, shim_yield_cap;
size_t shim_state_size(void);
int shim_start(void *st);
int shim_feed(const uint8_t **cur, const uint8_t *end, void *st);
int shim_end(void *st);
void shim_free(void *st);
void shim_set_hooks(void *st);
void shim_poison(void *st, int fill);
void shim_snapshot(void *st);
int shim_check(void *st, int phase);
void *shim_clone(void *st);
void shim_destroy_clone(void *st);
const char *shim_code_name(int rc);
int shim_code_class(int rc); /* 0 OK 1 FAIL 2 DONE 3 FINISH 4 YIELD -1 unknown */
unsigned shim_get_state(void *st);
size_t shim_config(void *st, uint8_t *out, size_t cap);
const char *shim_hook_name(int idx);

/* sanitizer interface (present in ASan builds) */
void __sanitizer_set_death_callback(void (*cb)(void));
int __sanitizer_install_malloc_and_free_hooks(void (*mh)(const volatile void *, size_t),
                                               void (*fh)(const volatile void *));

/* ------------------------------------------------------------------ text buffers */
#define SNAPCAP 65536
static char g_snap[SNAPCAP];
static size_t g_snaplen;
static char g_msg[8192];
static size_t g_msglen;

static void snap_reset(void) { g_snaplen = 0; g_snap[0] = 0; }
static void snap_putc(char c) { if (g_snaplen + 1 < SNAPCAP) { g_snap[g_snaplen++] = c; g_snap[g_snaplen] = 0; } }
static void snap_puts(const char *s) { while (*s) snap_putc(*s++); }

/* called by the shim */
void drv_put_ll(const char *name, long long v)
{
    char tmp[64];
    if (g_snaplen) snap_putc(';');
    snap_puts(name); snap_putc('=');
    snprintf(tmp, sizeof tmp, "%lld", v);
    snap_puts(tmp);
}
void drv_put_bytes(const char *name, const void *p, size_t n, long long counter, int isnull)
{
    static const char hx[] = "0123456789abcdef";
    char tmp[64];
    const uint8_t *b = (const uint8_t *)p;
    if (g_snaplen) snap_putc(';');
    snap_puts(name); snap_putc('=');
    snprintf(tmp, sizeof tmp, "%lld:", counter);
    snap_puts(tmp);
    if (isnull && n == 0) { /* NULL heap pointer with counter 0: treated as empty */ }
    for (size_t i = 0; i < n; i++) { snap_putc(hx[b[i] >> 4]); snap_putc(hx[b[i] & 15]); }
}
void drv_msg(const char *fmt, const char *name, long long a, long long b)
{
    int n = snprintf(g_msg + g_msglen, sizeof g_msg - g_msglen, fmt, name, a, b);
    if (n > 0) g_msglen += (size_t)n;
    if (g_msglen >= sizeof g_msg) g_msglen = sizeof g_msg - 1;
}

/* ------------------------------------------------------------------ sessions */
#define MAXSESS 4
typedef struct {
    int live;
    void *st;
    uint8_t *input; size_t inlen;
    uint8_t *block; size_t blen; size_t blo; const uint8_t *cur; const uint8_t *bend;
    int pending;
    int dead;
    char *lastsnap;
} sess_t;
static sess_t S[MAXSESS];
static long g_op;
static int g_sid;

/* ------------------------------------------------------------------ tick clock + cycle detector */
static jmp_buf g_jb;
static volatile int g_in_gen;
static unsigned long long g_ticks, g_budget, g_hard;
static size_t g_len;
static void *g_st;
static const uint8_t **g_curp;
static sess_t *g_sess;
static int g_abort;

#define CFGCAP (1 << 16)
static uint8_t g_cfg_cur[CFGCAP], g_cfg_anchor[CFGCAP];
static size_t g_cfg_anchor_len;
static unsigned long long g_power, g_lam, g_hits, g_since_hit, g_cyclen;
static int g_frozen;

static uint8_t *g_cov; static uint32_t g_nguards;

void __sanitizer_cov_trace_pc_guard_init(uint32_t *start, uint32_t *stop)
{
    if (start == stop || *start) return;
    uint32_t n = 0;
    for (uint32_t *x = start; x < stop; x++) *x = ++n;
    g_nguards = n;
    g_cov = (uint8_t *)calloc(n + 1, 1);
}

static size_t build_config(uint32_t guard)
{
    size_t n = 0;
    memcpy(g_cfg_cur + n, &guard, 4); n += 4;
    long long off = -1;
    if (g_curp && g_sess && g_sess->block) off = (long long)(*g_curp - g_sess->block);
    memcpy(g_cfg_cur + n, &off, 8); n += 8;
    n += shim_config(g_st, g_cfg_cur + n, CFGCAP - n);
    return n;
}

static void slow_path(uint32_t guard)
{
    size_t n = build_config(guard);
    int same = (n == g_cfg_anchor_len && memcmp(g_cfg_cur, g_cfg_anchor, n) == 0);
    if (g_frozen) {
        g_since_hit++;
        if (same) {
            g_hits++; g_since_hit = 0;
            if (g_hits >= g_len + 2) { g_abort = 1; g_in_gen = 0; longjmp(g_jb, 1); }
        } else if (g_since_hit > 4 * g_cyclen + 16) {
            g_frozen = 0; g_power = 1; g_lam = 0; g_hits = 0;
            memcpy(g_cfg_anchor, g_cfg_cur, n); g_cfg_anchor_len = n;
        }
    } else {
        g_lam++;
        if (same) { g_frozen = 1; g_cyclen = g_lam; g_hits = 1; g_since_hit = 0; }
        else if (g_lam == g_power) {
            memcpy(g_cfg_anchor, g_cfg_cur, n); g_cfg_anchor_len = n;
            g_power *= 2; g_lam = 0;
        }
    }
    if (g_ticks > g_hard) { g_abort = 2; g_in_gen = 0; longjmp(g_jb, 2); }
}

void __sanitizer_cov_trace_pc_guard(uint32_t *guard)
{
    if (!g_in_gen) return;
    g_ticks++;
    if (g_cov) g_cov[*guard] = 1;
    if (g_ticks > g_budget) slow_path(*guard);
}

static void arm(sess_t *s, void *st, const uint8_t **curp, size_t len)
{
    g_ticks = 0; g_budget = 4096ULL + 512ULL * len; g_hard = g_budget * 17ULL;
    g_len = len; g_st = st; g_curp = curp; g_sess = s; g_abort = 0;
    g_power = 1; g_lam = 0; g_hits = 0; g_frozen = 0; g_cfg_anchor_len = 0; g_since_hit = 0; g_cyclen = 0;
}

/* ------------------------------------------------------------------ allocation tracking (generated code only) */
#define MAXTRACK 4096
static struct { const volatile void *p; size_t n; int sid; } g_track[MAXTRACK];
static int g_ntrack;
static void mhook(const volatile void *p, size_t n)
{
    if (!g_in_gen || !p) return;
    if (g_ntrack < MAXTRACK) { g_track[g_ntrack].p = p; g_track[g_ntrack].n = n; g_track[g_ntrack].sid = g_sid; g_ntrack++; }
}
static void fhook(const volatile void *p)
{
    if (!p) return;
    for (int i = 0; i < g_ntrack; i++) if (g_track[i].p == p) { g_track[i] = g_track[--g_ntrack]; return; }
}
static void track_purge(int sid)
{
    for (int i = 0; i < g_ntrack; ) { if (g_track[i].sid == sid) g_track[i] = g_track[--g_ntrack]; else i++; }
}

/* ------------------------------------------------------------------ output helpers */
static void on_death(void) { fflush(stdout); }

static const char *snap_for(sess_t *s, void *st)
{
    snap_reset();
    shim_snapshot(st);
    if (s && s->lastsnap && strcmp(s->lastsnap, g_snap) == 0) return "=";
    if (s) { free(s->lastsnap); s->lastsnap = strdup(g_snap); }
    return g_snaplen ? g_snap : "-";
}

static long long cur_pos(sess_t *s)
{
    if (!shim_indirect || !s->block) return -1;
    return (long long)s->blo + (long long)(s->cur - s->block);
}

/* called by the shim's hook stubs */
void drv_hook(int idx, unsigned inval, void *st)
{
    int was = g_in_gen; g_in_gen = 0;
    sess_t *s = g_sess;
    long long pos = -1;
    if (g_curp && s && s->block && shim_indirect) pos = (long long)s->blo + (long long)(*g_curp - s->block);
    else if (!g_curp) pos = -2;
    /* hooks of a forked end() run on a clone: never compress against the session's last snapshot */
    const char *sn; char tag = 'H';
    if (s && st == s->st) sn = snap_for(s, st);
    else { snap_reset(); shim_snapshot(st); sn = g_snaplen ? g_snap : "-"; tag = 'h'; }
    printf("%c %ld %d %s %u %lld %s\n", tag, g_op, g_sid, shim_hook_name(idx), inval, pos, sn);
    g_in_gen = was;
}

static void report_abort(int kind)
{
    snap_reset();
    if (g_st) shim_snapshot(g_st);
    printf("X %ld %d %s ticks=%llu budget=%llu cyclen=%llu hits=%llu in=%s snap=%s\n", g_op, g_sid,
           kind == 1 ? "SPIN" : "SLOW", g_ticks, g_budget, g_cyclen, g_hits, g_curp ? "feed" : "end-or-start",
           g_snaplen ? g_snap : "-");
}

static void do_check(sess_t *s, void *st, int phase)
{
    g_msglen = 0; g_msg[0] = 0;
    int n = shim_check(st, phase);
    if (n) printf("K %ld %d %d %s\n", g_op, g_sid, n, g_msg);
}

/* ------------------------------------------------------------------ end() with yield draining */
static void run_end(sess_t *s, void *st, const char *kind, int is_clone)
{
    static uint8_t ycfg[CFGCAP]; size_t ycfglen = 0; int ny = 0;
    if (!shim_has_end) { printf("W %ld %d no-end-function\n", g_op, g_sid); return; }
    for (;;) {
        volatile int rc = -1;
        arm(s, st, NULL, 0);
        int ab = setjmp(g_jb);
        if (ab == 0) { g_in_gen = 1; rc = shim_end(st); g_in_gen = 0; }
        else { report_abort(ab); if (!is_clone) s->dead = 1; return; }
        const char *sn;
        if (is_clone) { snap_reset(); shim_snapshot(st); sn = g_snaplen ? g_snap : "-"; }
        else sn = snap_for(s, st);
        printf("C %ld %d %s%s %s %lld %llu %u %s\n", g_op, g_sid, kind, ny ? "C" : "", shim_code_name(rc), (long long)-2,
               g_ticks, shim_get_state(st), sn);
        if (shim_code_class(rc) != 4) return;
        /* yield from end(): re-invoke end; exact repeat => livelock */
        size_t n = shim_config(st, g_cfg_cur, CFGCAP);
        if (ny > 0 && n == ycfglen && memcmp(g_cfg_cur, ycfg, n) == 0) {
            printf("X %ld %d LIVELOCK end-yields=%d\n", g_op, g_sid, ny);
            if (!is_clone) s->dead = 1;
            return;
        }
        if ((ny & (ny - 1)) == 0) { memcpy(ycfg, g_cfg_cur, n); ycfglen = n; }
        if (++ny > 4096) { printf("X %ld %d YSLOW end-yields=%d\n", g_op, g_sid, ny); if (!is_clone) s->dead = 1; return; }
    }
}

static void fork_end(sess_t *s)
{
    if (!shim_has_end || s->dead) return;
    void *cl = shim_clone(s->st);
    run_end(s, cl, "FEND", 1);
    shim_destroy_clone(cl);
}

/* ------------------------------------------------------------------ feed with yield re-entry */
static void drop_block(sess_t *s) { free(s->block); s->block = NULL; s->pending = 0; s->cur = s->bend = NULL; }

static void feed_loop(sess_t *s, const char *modes, const char *flags, const char *kind0)
{
    static uint8_t ycfg[CFGCAP]; size_t ycfglen = 0; int ny = 0; size_t mi = 0;
    int fe = strchr(flags, 'e') != NULL, fk = strchr(flags, 'k') != NULL;
    const char *kind = kind0;
    size_t nm = strlen(modes);
    for (;;) {
        if (fe) fork_end(s);
        const uint8_t *before = s->cur;
        volatile int rc = -1;
        arm(s, s->st, &s->cur, (size_t)(s->bend - s->cur));
        int ab = setjmp(g_jb);
        if (ab == 0) { g_in_gen = 1; rc = shim_feed(&s->cur, s->bend, s->st); g_in_gen = 0; }
        else { report_abort(ab); s->dead = 1; drop_block(s); return; }
        printf("C %ld %d %s %s %lld %llu %u %s\n", g_op, g_sid, kind, shim_code_name(rc), cur_pos(s),
               g_ticks, shim_get_state(s->st), snap_for(s, s->st));
        if (fk) do_check(s, s->st, 0);
        if (shim_code_class(rc) != 4) { drop_block(s); return; }
        /* a yield code: the caller re-invokes with the start pointer left as is */
        s->pending = 1;
        if (s->cur != before) { ny = 0; ycfglen = 0; }
        else {
            size_t n = shim_config(s->st, g_cfg_cur, CFGCAP);
            if (ny > 0 && n == ycfglen && memcmp(g_cfg_cur, ycfg, n) == 0) {
                snap_reset(); shim_snapshot(s->st);
                printf("X %ld %d LIVELOCK feed-yields=%d snap=%s\n", g_op, g_sid, ny, g_snaplen ? g_snap : "-");
                s->dead = 1; drop_block(s); return;
            }
            if ((ny & (ny - 1)) == 0) { memcpy(ycfg, g_cfg_cur, n); ycfglen = n; }
            if (++ny > 4096) { printf("X %ld %d YSLOW feed-yields=%d\n", g_op, g_sid, ny); s->dead = 1; drop_block(s); return; }
        }
        char m = nm ? modes[mi++ % nm] : '0';
        kind = "REFEED";
        if (m == '2') return;
        if (m == '1') {
            /* move the unconsumed tail to a new exact-size buffer; free the old one first */
            size_t consumed = (size_t)(s->cur - s->block), rest = s->blen - consumed;
            size_t abs = s->blo + consumed;
            free(s->block);
            uint8_t *nb;
            /* copy from the session's input stream, not from the (freed) old block */
            if (rest) { nb = (uint8_t *)malloc(rest); memcpy(nb, s->input + abs, rest); s->block = nb; s->cur = nb; s->bend = nb + rest; s->blen = rest; }
            else { nb = (uint8_t *)malloc(1); nb[0] = 0xEE; s->block = nb; s->cur = nb + 1; s->bend = nb + 1; s->blen = 1; abs -= 1; }
            s->blo = abs;
            kind = "REFEED1";
        }
    }
}

static void op_feed(sess_t *s, size_t lo, size_t hi, const char *modes, const char *flags)
{
    if (s->pending) { printf("W %ld %d feed-while-pending\n", g_op, g_sid); drop_block(s); }
    if (lo > hi || hi > s->inlen) { printf("W %ld %d bad-range\n", g_op, g_sid); return; }
    size_t n = hi - lo;
    if (n == 0) {
        /* zero-length read: start == end == one past a 1-byte block, so that any read of *start traps */
        s->block = (uint8_t *)malloc(1); s->block[0] = 0xEE; s->blen = 1;
        s->cur = s->block + 1; s->bend = s->block + 1; s->blo = lo - 1; /* pos = blo + 1 = lo (wraps for lo == 0) */
        feed_loop(s, modes, flags, "FEED0");
        return;
    }
    s->block = (uint8_t *)malloc(n);
    memcpy(s->block, s->input + lo, n);
    s->blen = n; s->blo = lo; s->cur = s->block; s->bend = s->block + n;
    feed_loop(s, modes, flags, "FEED");
}

/* ------------------------------------------------------------------ script interpreter */
static int hexval(int c) { if (c >= '0' && c <= '9') return c - '0'; if (c >= 'a' && c <= 'f') return c - 'a' + 10; if (c >= 'A' && c <= 'F') return c - 'A' + 10; return -1; }

static void end_run(void)
{
    for (int i = 0; i < MAXSESS; i++) {
        sess_t *s = &S[i];
        if (!s->live && !s->input) continue;
        if (s->block) drop_block(s);
        if (s->st) {
            if (shim_has_free && !s->dead) { g_sid = i; shim_free(s->st); }
            free(s->st);
        }
        free(s->input); free(s->lastsnap);
        memset(s, 0, sizeof *s);
        track_purge(i);
    }
}

static void on_alarm(int sig) { (void)sig; static const char m[] = "\nX -1 -1 WALLTIMEOUT\n"; fflush(stdout); (void)!write(1, m, sizeof m - 1); _exit(3); }

int main(int argc, char **argv)
{
    FILE *in = stdin;
    if (argc > 1 && strcmp(argv[1], "-")) { in = fopen(argv[1], "r"); if (!in) { perror("script"); return 4; } }
    static char obuf[1 << 20];
    setvbuf(stdout, obuf, _IOFBF, sizeof obuf);
    __sanitizer_set_death_callback(on_death);
    __sanitizer_install_malloc_and_free_hooks(mhook, fhook);
    signal(SIGALRM, on_alarm);
    char *line = NULL; size_t cap = 0; ssize_t len;
    long runid = -1;
    while ((len = getline(&line, &cap, in)) > 0) {
        while (len > 0 && (line[len - 1] == '\n' || line[len - 1] == '\r')) line[--len] = 0;
        if (!len || line[0] == '#') continue;
        if (!strncmp(line, "RUN ", 4)) {
            runid = atol(line + 4); g_op = 0;
            printf("R %ld\n", runid);
            alarm(60);
            continue;
        }
        if (!strcmp(line, "ENDRUN")) {
            end_run();
            printf("Q %ld\n", runid);
            fflush(stdout);
            alarm(0);
            continue;
        }
        if (!strncmp(line, "IN ", 3)) {
            char *p = line + 3; int sid = (int)strtol(p, &p, 10);
            while (*p == ' ') p++;
            if (sid < 0 || sid >= MAXSESS) continue;
            sess_t *s = &S[sid];
            free(s->input);
            size_t hl = (*p == '-') ? 0 : strlen(p);
            s->inlen = hl / 2;
            s->input = (uint8_t *)malloc(s->inlen ? s->inlen : 1);
            for (size_t i = 0; i < s->inlen; i++) s->input[i] = (uint8_t)((hexval(p[2 * i]) << 4) | hexval(p[2 * i + 1]));
            continue;
        }
        if (!strncmp(line, "OP ", 3)) {
            char *p = line + 3; int sid = (int)strtol(p, &p, 10);
            char opn[32] = {0}; char a1[64] = {0}, a2[64] = {0}, a3[128] = {0}, a4[32] = {0};
            int nf = sscanf(p, " %31s %63s %63s %127s %31s", opn, a1, a2, a3, a4);
            (void)nf;
            if (sid < 0 || sid >= MAXSESS) continue;
            sess_t *s = &S[sid];
            g_sid = sid; g_sess = s; g_curp = NULL;
            if (!strcmp(opn, "START")) {
                int fill = atoi(a1);
                size_t sz = shim_state_size();
                if (s->block) drop_block(s);
                if (!s->st) { s->st = malloc(sz); if (fill < 0) fill = 0; }
                /* scalars are zeroed (the caller's job, as example/http_test.c does); string storage, counters and
                   heap pointers are poisoned with <fill> so that nothing start() must initialise is pre-initialised */
                if (fill >= 0) { memset(s->st, 0, sz); if (fill > 0) shim_poison(s->st, fill); }
                shim_set_hooks(s->st);
                s->live = 1; s->dead = 0;
                volatile int rc = -1;
                arm(s, s->st, NULL, 0);
                int ab = setjmp(g_jb);
                if (ab == 0) { g_in_gen = 1; rc = shim_start(s->st); g_in_gen = 0;
                    printf("C %ld %d START %s %lld %llu %u %s\n", g_op, sid, shim_code_name(rc), (long long)-2, g_ticks,
                           shim_get_state(s->st), snap_for(s, s->st)); }
                else { report_abort(ab); s->dead = 1; }
            } else if (!s->live || !s->st) {
                printf("W %ld %d op-before-start %s\n", g_op, sid, opn);
            } else if (s->dead) {
                /* session aborted by the tick clock: its remaining ops are skipped */
            } else if (!strcmp(opn, "FEED")) {
                op_feed(s, (size_t)atol(a1), (size_t)atol(a2), a3[0] ? a3 : "0", a4[0] ? a4 : "-");
            } else if (!strcmp(opn, "FEED0")) {
                size_t at = (size_t)atol(a1);
                op_feed(s, at, at, "0", "-");
            } else if (!strcmp(opn, "CONT")) {
                if (s->pending) feed_loop(s, a1[0] ? a1 : "0", a2[0] ? a2 : "-", "REFEED");
            } else if (!strcmp(opn, "END")) {
                if (s->pending) { /* EOF while a yielded chunk is pending: the tail is abandoned */ drop_block(s); }
                run_end(s, s->st, "END", 0);
            } else if (!strcmp(opn, "FORK_END")) {
                fork_end(s);
            } else if (!strcmp(opn, "RELOCATE")) {
                size_t sz = shim_state_size();
                void *n = malloc(sz); memcpy(n, s->st, sz); free(s->st); s->st = n;
            } else if (!strcmp(opn, "FREE")) {
                if (shim_has_free) {
                    if (s->block) drop_block(s);
                    arm(s, s->st, NULL, 0);   /* fresh tick budget and configuration pointer (a stale one may be a freed clone) */
                    if (setjmp(g_jb) == 0) { g_in_gen = 1; shim_free(s->st); g_in_gen = 0; }
                    else { report_abort(g_abort); s->dead = 1; }
                    int nb = 0; size_t by = 0;
                    for (int i = 0; i < g_ntrack; i++) if (g_track[i].sid == sid) { nb++; by += g_track[i].n; }
                    if (nb) { printf("L %ld %d %d %zu\n", g_op, sid, nb, by); track_purge(sid); }
                    printf("C %ld %d FREE - %lld 0 %u %s\n", g_op, sid, (long long)-2, shim_get_state(s->st), snap_for(s, s->st));
                } else printf("W %ld %d no-free-function\n", g_op, sid);
            } else if (!strcmp(opn, "CHECK")) {
                do_check(s, s->st, atoi(a1));
            } else {
                printf("W %ld %d unknown-op %s\n", g_op, sid, opn);
            }
            g_op++;
            continue;
        }
    }
    unsigned hit = 0;
    for (uint32_t i = 1; i <= g_nguards; i++) if (g_cov && g_cov[i]) hit++;
    printf("V %u %u\n", g_nguards, hit);
    fflush(stdout);
    return 0;
}
