"""
Strict-done twins (oracle SD, property C10): the same program built with and without
-fstrict-done-token-generation, driven by the same canonical one-byte schedule.
"strict-done mode may only postpone DONE to the following call": everything up to the
DONE of the non-strict build must be identical, the strict build returns OK for that
byte instead (same events, same outputs, whole byte consumed) and DONE - with nothing
else happening - on the very next call, or from end() if no byte follows.
"""
import os
import shutil
import time

from . import nmfu_child, cbuild, engine, sched, oracles, inputs as inputs_mod

STRICT = "-fstrict-done-token-generation"


def _key(st):
    return (st.code, st.pos_after, st.events, st.snap)


def compare(ca, cb, has_end):
    """ca: non-strict canon, cb: strict canon (same input). Returns findings."""
    out = []
    F = lambda kind, detail: out.append(oracles.V("SD", kind, -1, 0, detail))
    n = min(len(ca.steps), len(cb.steps))
    for j in range(n):
        a, b = ca.steps[j], cb.steps[j]
        if has_end and j < len(ca.eofs) and j < len(cb.eofs) and ca.eofs[j] is not None and cb.eofs[j] is not None:
            if oracles._eof_key(ca.eofs[j]) != oracles._eof_key(cb.eofs[j]):
                F("end-result-differs", "end() before atomic step %d: non-strict %s, strict %s" % (
                    j, [c.brief() for c in ca.eofs[j]], [c.brief() for c in cb.eofs[j]]))
                return out
        if _key(a) == _key(b):
            if a.cls in ("FAIL", "DONE", "FINISH"):
                return out
            continue
        if a.cls == "DONE":
            # the one permitted difference
            if not (b.cls == "OK" and b.events == a.events and b.snap == a.snap and b.pos_after == a.i + 1):
                F("postponed-call-differs", "byte %d: non-strict %s snap=%s ; strict %s snap=%s" % (a.i, a.code + str(a.events), a.snap, b.code + str(b.events), b.snap))
                return out
            if j + 1 < len(cb.steps):
                c = cb.steps[j + 1]
                if not (c.cls == "DONE" and not c.events and c.snap == a.snap and c.pos_after == c.i and c.i == a.i + 1):
                    F("done-not-on-following-call", "non-strict DONE at byte %d; strict build's following call: %s pos=%d events=%s" % (a.i, c.code, c.pos_after, c.events))
            elif has_end and len(cb.eofs) > j + 1 and cb.eofs[j + 1] is not None:
                e = cb.eofs[j + 1]
                if e[-1].code != "DONE" or any(x.events for x in e):
                    F("postponed-done-lost-at-eof", "non-strict DONE at byte %d; strict build at end of input: end() -> %s" % (a.i, [x.brief() for x in e]))
            return out
        F("strict-done-changes-behaviour", "atomic step %d (byte %d): non-strict %s pos=%d events=%s snap=%s ; strict %s pos=%d events=%s snap=%s" % (
            j, a.i, a.code, a.pos_after, a.events, a.snap, b.code, b.pos_after, b.events, b.snap))
        return out
    return out


def twin_unit(unit, plan, root, uidx, workdir, tree):
    t0 = time.time()
    res = {"label": unit["label"], "argv": unit["argv"], "status": "simulated", "verdict": None, "findings": [], "samples": [],
           "stats": {"canonical_runs": 0, "scheduled_runs": 0, "sessions": 0, "api_calls": 0, "ticks": 0, "fired": {}, "crashes": 0,
                     "nontrivial": [], "twins_compared": 0, "spin": 0, "slow": 0}}
    base = [a for a in unit["argv"] if a != STRICT]
    if "-findirect-start-ptr" not in base and "-fyield-support" not in base:
        base.append("-findirect-start-ptr")
    builds = []
    try:
        for i, argv in enumerate((base, base + [STRICT])):
            comp = nmfu_child.compile_in_fork(unit["source"], argv, tree=tree)
            res["verdict"] = comp["verdict"]
            if comp["verdict"] != "accepted":
                res["status"] = "rejected"
                return res
            tag = "t%d_%d_%d" % (os.getpid(), uidx, i)
            try:
                drv = cbuild.build(comp, workdir, tag, canaries=unit.get("canaries"))
            except cbuild.BuildError as e:
                res["status"] = "unbuildable" if e.stage == "generated" else "harness-error"
                cbuild.cleanup(workdir, tag)
                return res
            builds.append((argv, comp, drv, os.path.join(workdir, tag)))
        metaA = builds[0][1]["meta"]
        caps = sched.Caps(metaA["flags"])
        rin = sched.rng_for(root, "twin-input", uidx)
        xs = inputs_mod.make_inputs(rin, metaA["dfa"], plan.get("n_inputs", 8), plan.get("maxlen", 32),
                                    [bytes.fromhex(h) for h in unit.get("seeds", [])])
        runs = [(k, sched.run_text(k, {0: x}, sched.canonical_ops(len(x), caps, 0))) for k, x in enumerate(xs)]
        outs = [engine.exec_runs(b[2], runs, b[3]) for b in builds]
        for k, x in enumerate(xs):
            ra, rb = outs[0].get(k), outs[1].get(k)
            res["stats"]["canonical_runs"] += 2
            if not ra or not rb or ra[1] is not None or rb[1] is not None:
                res["stats"]["crashes"] += 1
                continue
            engine._account(res["stats"], ra[0])
            engine._account(res["stats"], rb[0])
            ca = oracles.Canon(ra[0], len(x), True, caps.has_end)
            cb = oracles.Canon(rb[0], len(x), True, caps.has_end)
            if not ca.ok or not cb.ok:
                continue
            res["stats"]["twins_compared"] += 1
            res["stats"]["sessions"] += 2
            ff = compare(ca, cb, caps.has_end)
            ctx = {"label": unit["label"], "source": unit["source"], "argv": builds[1][0], "inputs": {"0": x.hex()},
                   "script": runs[k][1], "twin_argv": builds[0][0]}
            for f in ff:
                engine._add(res, f, ctx, "twin")
            if ca.terminal_at is not None and ca.steps[ca.terminal_at].cls == "DONE":
                res["stats"]["nontrivial"].append(engine.sha("twin|%s|%s|%s" % (unit["label"], " ".join(base), x.hex())))
        return res
    finally:
        for b in builds:
            shutil.rmtree(b[3], ignore_errors=True)
        res["wall"] = time.time() - t0


def replay(prop, doc, tree, workdir):
    unit = {"label": doc.get("label"), "source": doc["source"], "argv": doc["argv"], "must": [doc["inputs"]["0"]]}
    builds = []
    try:
        for i, argv in enumerate((doc["twin_argv"], doc["argv"])):
            comp = nmfu_child.compile_in_fork(doc["source"], argv, tree=tree)
            if comp["verdict"] != "accepted":
                print("replay: program no longer accepted under this tree")
                return 0
            tag = "tr%d_%d" % (os.getpid(), i)
            try:
                drv = cbuild.build(comp, workdir, tag)
            except cbuild.BuildError:
                print("replay: generated C no longer builds")
                return 0
            builds.append((argv, comp, drv, os.path.join(workdir, tag)))
        caps = sched.Caps(builds[0][1]["meta"]["flags"])
        x = bytes.fromhex(doc["inputs"]["0"])
        runs = [(0, sched.run_text(0, {0: x}, sched.canonical_ops(len(x), caps, 0)))]
        outs = [engine.exec_runs(b[2], runs, b[3]).get(0) for b in builds]
        if any(o is None or o[1] is not None for o in outs):
            print("replay: a twin crashed: %s" % [o[1] if o else None for o in outs])
            return 0
        ca = oracles.Canon(outs[0][0], len(x), True, caps.has_end)
        cb = oracles.Canon(outs[1][0], len(x), True, caps.has_end)
        ff = compare(ca, cb, caps.has_end)
        for f in ff:
            print("replay finding: %s %s %s" % (f["oracle"], f["kind"], f["detail"][:400]))
        if any(f["kind"] == doc["kind"] for f in ff):
            print("VIOLATION property=%s replay=%s" % (prop, doc.get("_path", "?")))
            return 1
        print("replay: twins agree up to the permitted postponement")
        return 0
    finally:
        for b in builds:
            shutil.rmtree(b[3], ignore_errors=True)
