#!/venv/bin/python
"""debug helper: simulate one program.  usage: try_program.py file.nmfu "<argv>" hexinput [hexinput..]"""
import sys, os, tempfile, shutil, json
sys.path.insert(0, os.path.dirname(os.path.dirname(os.path.abspath(__file__))))
from sim import engine
src = open(sys.argv[1]).read()
argv = sys.argv[2].split()
tree = os.environ.get("NMFU_TREE", "/repo")
wd = tempfile.mkdtemp(prefix="nmfuv_")
try:
    u = {"label": sys.argv[1], "source": src, "argv": argv, "must_inputs": sys.argv[3:]}
    r = engine.simulate_unit(u, {"n_inputs": 4, "maxlen": 24}, 1, 0, wd, tree)
    print(r["status"], r["verdict"], r.get("error"))
    seen = set()
    for f in r["findings"]:
        k = (f["oracle"], f["kind"])
        if k in seen: continue
        seen.add(k)
        print(f["oracle"], f["kind"], f["phase"], f["detail"][:400], f["ctx"]["inputs"])
    print({k: v for k, v in r["stats"].items() if k in ("canonical_runs", "scheduled_runs", "calls_compared", "spin", "slow", "crashes")})
finally:
    shutil.rmtree(wd)
