#!/venv/bin/python
"""debug helper: print the canonical (one byte per call, EOF forked at every boundary) trace of one program.
usage: trace_program.py file.nmfu "<argv>" hexinput [hexinput..]      (NMFU_TREE selects the tree, default /repo)"""
import sys, os, tempfile, shutil
sys.path.insert(0, os.path.dirname(os.path.dirname(os.path.abspath(__file__))))
from sim import engine, nmfu_child, cbuild, sched
src = open(sys.argv[1]).read()
argv = sys.argv[2].split()
tree = os.environ.get("NMFU_TREE", "/repo")
wd = tempfile.mkdtemp(prefix="nmfuv_")
try:
    comp = nmfu_child.compile_in_fork(src, argv, tree=tree)
    print(comp["verdict"], comp.get("error"))
    if comp["verdict"] == "accepted":
        drv = cbuild.build(comp, wd, "t0")
        caps = sched.Caps(comp["meta"]["flags"])
        for k, h in enumerate(sys.argv[3:]):
            x = bytes.fromhex(h)
            lines = sched.run_text(k, {0: x}, sched.canonical_ops(len(x), caps, 0))
            out = engine.exec_runs(drv, [(k, lines)], os.path.join(wd, "t0"))
            run, crash = out[k]
            print("== input", x)
            if crash:
                print("CRASH", crash[:2])
            if run:
                for c in run.calls:
                    print("  ", c.brief())
                for a in run.aborts:
                    print("   ABORT", a)
finally:
    shutil.rmtree(wd)
