#!/venv/bin/python
"""
Seeded changes: independently written regressions of mincrmatt12/nmfu kept under
/verif/seeded/<id>/ (patch.diff, the author's demonstration, meta.json).

  tools/seeded.py verify <id>     scratch worktree of /repo HEAD: test suite with the patch, demo with and without
  tools/seeded.py check  <id> [prop ...]   run the quick check(s) against a patched scratch tree
  tools/seeded.py all             check every seeded change against the property in its meta.json

Nothing is ever applied to /repo; scratch trees live under $TMPDIR and are removed.
"""
import glob
import json
import os
import shutil
import subprocess
import sys
import tempfile
import time

VERIF = os.path.dirname(os.path.dirname(os.path.abspath(__file__)))
SEEDED = os.path.join(VERIF, "seeded")
REPO = "/repo"


def scratch_tree(patch=None):
    d = tempfile.mkdtemp(prefix="nmfuseed_")
    wt = os.path.join(d, "wt")
    subprocess.run(["git", "-C", REPO, "worktree", "add", "-q", "--detach", wt, "HEAD"], check=True)
    if patch:
        r = subprocess.run(["git", "-C", wt, "apply", patch], capture_output=True, text=True)
        if r.returncode != 0:
            raise RuntimeError("patch does not apply: " + r.stderr)
    return d, wt


def drop_tree(d, wt):
    subprocess.run(["git", "-C", REPO, "worktree", "remove", "--force", wt], capture_output=True)
    shutil.rmtree(d, ignore_errors=True)


def demo_of(sid):
    for n in ("demo.sh", "demo.py"):
        p = os.path.join(SEEDED, sid, n)
        if os.path.exists(p):
            return p
    return None


def run_demo(demo, wt):
    cmd = ["bash", demo, wt] if demo.endswith(".sh") else ["/venv/bin/python", demo, wt]
    p = subprocess.run(cmd, capture_output=True, text=True, timeout=600)
    tail = (p.stdout + p.stderr).strip().splitlines()[-3:]
    return p.returncode, " | ".join(tail)[-300:]


def verify(sid):
    patch = os.path.join(SEEDED, sid, "patch.diff")
    demo = demo_of(sid)
    out = {"id": sid}
    d, wt = scratch_tree(patch)
    try:
        for attempt in range(3):
            # (tests/test_case_merge.py has a 200 ms hypothesis deadline that fails on a loaded machine: retried)
            p = subprocess.run(["/venv/bin/python", "-m", "pytest", "-q", "-p", "no:cacheprovider", "tests"], cwd=wt, capture_output=True, text=True)
            out["suite_with_patch"] = p.stdout.strip().splitlines()[-1] if p.stdout.strip() else p.stderr[-200:]
            if "failed" not in out["suite_with_patch"]:
                break
            out.setdefault("suite_retries", []).append([l for l in p.stdout.splitlines() if l.startswith("FAILED")][:3])
        out["demo_with_patch"] = run_demo(demo, wt)
    finally:
        drop_tree(d, wt)
    d, wt = scratch_tree(None)
    try:
        out["demo_without_patch"] = run_demo(demo, wt)
    finally:
        drop_tree(d, wt)
    out["confirmed"] = ("passed" in out["suite_with_patch"] and "failed" not in out["suite_with_patch"]
                        and out["demo_with_patch"][0] != 0 and out["demo_without_patch"][0] == 0)
    return out


def check(sid, props, tier="quick"):
    patch = os.path.join(SEEDED, sid, "patch.diff")
    d, wt = scratch_tree(patch)
    res = {"id": sid}
    try:
        for prop in props:
            env = dict(os.environ)
            env["NMFU_VERIF_OUT"] = os.path.join(d, "out")
            t0 = time.time()
            p = subprocess.run([os.path.join(VERIF, "check"), prop, "--tier", tier, "--tree", wt], capture_output=True, text=True, env=env)
            viol = [l for l in p.stdout.splitlines() if l.startswith("violation:")]
            res[prop] = {"rc": p.returncode, "violation_line": any(l.startswith("VIOLATION property=") for l in p.stdout.splitlines()),
                         "wall": round(time.time() - t0, 1),
                         "first": (viol[0][:300] if viol else (p.stdout.strip().splitlines() or [p.stderr[-200:]])[-1][:300])}
    finally:
        drop_tree(d, wt)
    return res


def import_seed(sid, wt, prop):
    d = os.path.join(SEEDED, sid)
    os.makedirs(d, exist_ok=True)
    shutil.copy(os.path.join(wt, "SEED_patch.diff"), os.path.join(d, "patch.diff"))
    for n in ("SEED_demo.sh", "SEED_demo.py"):
        if os.path.exists(os.path.join(wt, n)):
            shutil.copy(os.path.join(wt, n), os.path.join(d, "demo.sh" if n.endswith(".sh") else "demo.py"))
    if os.path.exists(os.path.join(wt, "SEED_notes.md")):
        shutil.copy(os.path.join(wt, "SEED_notes.md"), os.path.join(d, "notes.md"))
    mp = os.path.join(d, "meta.json")
    if not os.path.exists(mp):
        json.dump({"property": prop}, open(mp, "w"))
    print("imported", sid)


def main():
    cmd = sys.argv[1] if len(sys.argv) > 1 else "all"
    if cmd == "import":
        import_seed(sys.argv[2], sys.argv[3], sys.argv[4])
        return 0
    if cmd == "verify":
        print(json.dumps(verify(sys.argv[2]), indent=1))
    elif cmd == "check":
        sid = sys.argv[2]
        meta = json.load(open(os.path.join(SEEDED, sid, "meta.json")))
        props = sys.argv[3:] or [meta["property"]]
        print(json.dumps(check(sid, props), indent=1))
    elif cmd == "benign":
        # behaviour-preserving changes: every check must stay quiet
        bad = []
        ids = sys.argv[2:] or [os.path.basename(os.path.dirname(mp)) for mp in sorted(glob.glob(os.path.join(SEEDED, "*", "meta.json")))
                               if json.load(open(mp)).get("benign")]
        for sid in ids:
            r = check(sid, ["C02", "C03", "C04", "C10", "C12", "C17", "C20"])
            alarms = [(p, r[p]["first"][:200]) for p in r if p != "id" and r[p]["rc"] != 0]
            print("%s %s %s" % ("QUIET" if not alarms else "FALSE-ALARM", sid, alarms))
            if alarms:
                bad.append(sid)
        print("benign: false alarms on %s" % bad)
        return 1 if bad else 0
    else:
        missed = []
        for mp in sorted(glob.glob(os.path.join(SEEDED, "*", "meta.json"))):
            meta = json.load(open(mp))
            if meta.get("benign"):
                continue
            sid = os.path.basename(os.path.dirname(mp))
            try:
                r = check(sid, [meta["property"]])
            except RuntimeError as e:
                # the patch no longer applies to /repo HEAD (a later fix touched the same lines): it has to be rebased
                print("NOAPPLY %s %s :: %s" % (sid, meta["property"], str(e)[:120]))
                missed.append(sid)
                continue
            ok = r[meta["property"]]["rc"] == 1 and r[meta["property"]]["violation_line"]
            print("%s %s %s :: %s" % ("CAUGHT" if ok else "MISSED", sid, meta["property"], r[meta["property"]]["first"][:200]))
            if not ok:
                missed.append(sid)
        print("seeded: missed %s" % missed)
        return 1 if missed else 0
    return 0


if __name__ == "__main__":
    sys.exit(main())
