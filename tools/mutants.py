#!/venv/bin/python
"""
Sensitivity self-test: break each property on purpose in a scratch copy of the tree
(never in /repo), run the named check's quick tier against the copy and confirm that
it reports a violation; remove the copy afterwards.

  tools/mutants.py [name ...]        run the listed (or all) mutants
  tools/mutants.py --list

Each mutant is a textual replacement in nmfu.py that still compiles and (checked
separately when the list was written) passes the repository's test suite.
"""
import json
import os
import shutil
import subprocess
import sys
import tempfile
import time

VERIF = os.path.dirname(os.path.dirname(os.path.abspath(__file__)))
REPO = os.environ.get("NMFU_TREE", "/repo")

M = []


def mut(name, prop, old, new, count=1, extra_props=(), more=()):
    """more: further (old, new) pairs applied together with the first"""
    M.append({"name": name, "prop": prop, "old": old, "new": new, "count": count, "extra": list(extra_props), "more": list(more)})


# ---- C02: chunking independence
mut("c02-no-inval-reread-indirect", "C02",
    '                    transition_body.add("inval = **start;")', '                    pass')
mut("c02-no-inval-reread-direct", "C02",
    '                    transition_body.add("inval = *start;")', '                    pass')
mut("c03-no-end-check-for-yields", "C03",
    "            if any(x.may_return_early() for x in trans.actions):\n                return True", "            pass")
# (the next two exist to show that the `reloc` and `ilv` faults have teeth: the parser keeps something outside the struct)
mut("c02-self-pointer-in-state", "C02",
    '            contents.add(self._integer_containing(len(self.dfa.states), signed=False), "state;")',
    '            contents.add(self._integer_containing(len(self.dfa.states), signed=False), "state;")\n            contents.add(f"struct {self.program_name}_state *self;")',
    extra_props=("C03",),
    more=[('            contents.add("// set starting state")', '            contents.add("state->self = state;")\n            contents.add("// set starting state")'),
          ('            contents.add("uint8_t inval = " + ("**start" if ProgramData.do(ProgramFlag.INDIRECT_START_PTR) else "*start") + ";")',
           '            contents.add("uint8_t inval = " + ("**start" if ProgramData.do(ProgramFlag.INDIRECT_START_PTR) else "*start") + ";")\n            contents.add("state = state->self;")')])
mut("c02-static-last-state", "C02",
    '            contents.add("uint8_t inval = " + ("**start" if ProgramData.do(ProgramFlag.INDIRECT_START_PTR) else "*start") + ";")',
    '            contents.add("uint8_t inval = " + ("**start" if ProgramData.do(ProgramFlag.INDIRECT_START_PTR) else "*start") + ";")\n            contents.add("static unsigned nmfu_resume = 0; static void *nmfu_owner = 0;")\n            contents.add("if (nmfu_owner != 0 && nmfu_resume != state->state) { state->state = nmfu_resume; }")\n            contents.add("nmfu_owner = (void *)1; nmfu_resume = state->state;")')
# ---- C10: protocol
mut("c10-no-early-advance", "C10",
    "        return needs_early_advance and not from_end and not transition.is_fallthrough\n", "        return False\n", extra_props=("C02",))
mut("c10-fail-state-returns-ok", "C10",
    '                        state_body.add(f"return {self.program_name.upper()}_FAIL;")\n\n            contents.add(f"default: return {self.program_name.upper()}_FAIL;")\n            contents.add("}")\n\n        result.add("}")\n        return result.value()\n\n    def _generate_end_switch_body',
    '                        state_body.add(f"return {self.program_name.upper()}_OK;")\n\n            contents.add(f"default: return {self.program_name.upper()}_FAIL;")\n            contents.add("}")\n\n        result.add("}")\n        return result.value()\n\n    def _generate_end_switch_body')
mut("c10-zero-len-after-fail-ok", "C10",
    'return state->state == {self.dfa.states.index(self.generic_fail_state)} ? {self.program_name.upper()}_FAIL : {self.program_name.upper()}_OK;', 'return {self.program_name.upper()}_OK;')
mut("c10-foreach-actions-on-fallthrough", "C10",
    "                if transition.target in ignored_targets or transition.is_fallthrough:\n                    continue\n                transition.attach(*self.each_actions, prepend=True)",
    "                if transition.target in ignored_targets:\n                    continue\n                transition.attach(*self.each_actions, prepend=True)", extra_props=("C03",))
mut("c10-overflow-keeps-early-advance", "C10",
    "                    if not is_end and self._transition_advances_early(transition):", "                    if False:", extra_props=("C02", "C03"))
mut("c10-strict-done-takes-error-transition", "C10",
    "        if state in self.dfa.accepting_states and ProgramData.do(ProgramFlag.STRICT_DONE_TOKEN_GENERATION) and all(x.error_handling for x in state.transitions):",
    "        if False:")
mut("c10-yield-into-final-state-no-advance", "C10",
    "        return needs_early_advance and not from_end and not transition.is_fallthrough\n",
    "        return needs_early_advance and not from_end and not transition.is_fallthrough and not (transition.target in self.dfa.accepting_states and not ProgramData.do(ProgramFlag.STRICT_DONE_TOKEN_GENERATION) and all(x.error_handling for x in transition.target.transitions))\n")
mut("c10-shortcircuit-through-accept-state", "C10",
    "            # An accept state is never a \"dummy state\", even if all it has is an Else fallthrough\n            if transition.target in self.dfa.accepting_states: continue", "            pass")
# ---- C03: memory
mut("c03-capacity-off-by-one", "C03",
    "            max_length_expr = self._generate_buflike_length_expr(action.into_storage, include_null=True)",
    "            max_length_expr = self._generate_buflike_length_expr(action.into_storage, include_null=False)")
mut("c03-ondemand-guard-removed", "C03",
    'result.add(f"if (!state->c.{action.into_storage.name}) state->c.{action.into_storage.name} = malloc({output_length_expr});")',
    'result.add(f"state->c.{action.into_storage.name} = malloc({output_length_expr});")')
mut("c03-free-skips-null-reset", "C03",
    '                        contents.add(f"free(state->c.{out_expr.name});")\n                        contents.add(f"state->c.{out_expr.name} = NULL;")',
    '                        contents.add(f"free(state->c.{out_expr.name});")')
mut("c03-delete-frees-without-null", "C03",
    '                result.add(f"free(state->c.{action.into_storage.name});")\n                result.add(f"state->c.{action.into_storage.name} = NULL;")',
    '                result.add(f"free(state->c.{action.into_storage.name});")')
mut("c03-start-no-terminator", "C03",
    "                    if out_expr.holds_a(OutputStorageType.STR) and out_expr.str_null and out_expr.default_value is None and not self._is_dynamic(out_expr):",
    "                    if False:")
mut("c03-raw-index-by-value", "C03",
    'return f"((uint8_t *)&state->c.{out_expr.name})[{index_expr}]"', 'return f"((uint8_t *)state->c.{out_expr.name})[{index_expr}]"')
# ---- C04: liveness
mut("c04-no-fallthrough-loop-check", "C04",
    "        # verify correctness of DFA\n        self._verify_fallthrough_loop()", "        # verify correctness of DFA\n        pass")
# (c04-handler-scope - the handler-scope defect of repair 9 re-introduced - was retired in round 11: with the out-of-space cycle
#  search of repair 22 the programs it used to make spin are refused at compile time, so it no longer breaks C04)
mut("c12-per-state-hook-wrong-member", "C12",
    'result.add(f"(state->{action.name}_hook)(state, {parm});")', 'result.add(f"(state->{self.hooks[0]}_hook)(state, {parm});")')
mut("c12-dynamic-settostr-no-counter", "C12",
    '            result.add(f"state->{action.into_storage.name}_counter = {self._string_constant_length(action.value_expr)};")',
    '            if not ProgramData.do(ProgramFlag.ALLOCATE_STR_SPACE_DYNAMIC): result.add(f"state->{action.into_storage.name}_counter = {self._string_constant_length(action.value_expr)};")')
mut("c12-u8-append-truncates", "C12",
    "                char_type = self._get_string_char_type()\n", "                char_type = self._get_string_char_type()\n                if char_type == 'uint8_t': target_expression = f'(({target_expression}) & 0x7f)'\n")
# ---- C17: EOF
mut("c17-end-done-fail-swapped", "C17",
    '        if state in self.dfa.accepting_states:\n            result.add(f"return {self.program_name.upper()}_DONE;")\n        else:\n            result.add(f"return {self.program_name.upper()}_FAIL;")\n        return result.value()\n    \n    def _generate_end_implementation',
    '        if state in self.dfa.accepting_states:\n            result.add(f"return {self.program_name.upper()}_FAIL;")\n        else:\n            result.add(f"return {self.program_name.upper()}_FAIL;")\n        return result.value()\n    \n    def _generate_end_implementation')
mut("c17-inverted-class-matches-end", "C17",
    "                new_transitions[source.chars | frozenset((DFTransition.End,))] = (else_path, False)",
    "                new_transitions[source.chars] = (else_path, False)")
mut("c17-end-looks-up-else", "C17",
    "        unconditional_end_transition = state[DFTransition.End]", "        unconditional_end_transition = state[DFTransition.Else]")
mut("c17-strict-done-end-match-fails", "C17",
    "        elif from_end and transition.target in self.dfa.accepting_states:", "        elif False:")
mut("c17-accept-state-error-transition-at-eof", "C17",
    "        if unconditional_end_transition and not (state in self.dfa.accepting_states and unconditional_end_transition.error_handling):",
    "        if unconditional_end_transition:")
# ---- C20: purity
mut("c20-reset-keeps-flags", "C20",
    "    def _reset_flags(cls):\n        cls._flags = {\n                x: x.default for x in ProgramFlag\n        }",
    "    def _reset_flags(cls):\n        cls._flags = dict(cls._flags)")
# (a mutant that keeps ProgramData._options across compilations was tried and dropped: the options only change the
#  shape of the code - range collapsing, short-circuit thresholds - never the parser's behaviour, so it does not break C20)
mut("c20-hash-order-dependent-else", "C20",
    "    def _generate_equal_check(self, on_value):\n        return f\"inval == {ord(on_value)} /* {on_value!r} */\"",
    "    def _generate_equal_check(self, on_value):\n        return f\"inval == {(ord(on_value) + (1 if hash(str(on_value) * 3) % 97 == 0 else 0)) & 255} /* {on_value!r} */\"")

# ---- the repairs of rounds 9-11, reverted one by one (each was first shown by the named check on the tree before the repair)
mut("c03-hex-escape-run-on", "C03",
    '                result += "\\\\{:03o}".format(i)', '                result += "\\\\x{:02x}".format(i)')
mut("c03-oversized-default-accepted", "C03",
    "            if default_value is not None and len(default_value.encode('utf-8') if isinstance(default_value, str) else default_value) > storage.effective_string_size():",
    "            if False:")
mut("c03-text-constant-measured-in-characters", "C03",
    "        if isinstance(value, str):\n            return len(value.encode('utf-8'))\n        else:\n            return len(value)",
    "        return len(value)",
    more=[("        escaped_length = self._string_constant_length(value)\n", "        escaped_length = len(value.encode('utf-8')) if isinstance(value, str) else len(value)\n"),
          ("len(default_value.encode('utf-8') if isinstance(default_value, str) else default_value) > storage", "len(default_value) > storage")])
mut("c04-oos-handler-cycle-unchecked", "C04",
    "                        if symbol is not DFTransition.End and walk(action.end_target, symbol, False, set()):",
    "                        if False:")
mut("c17-end-static-verdict-after-conditional-break", "C17",
    "        elif from_end and any(x.get_target_override_mode() != ActionOverrideMode.NONE for x in transition.actions):",
    "        elif False:")
mut("c04-set-lookup-partial-overlap-takes-else", "C04",
    "                elif data & set(i.on_values):\n                    # only some of the symbols take this transition: no single transition answers for all of them\n                    return None",
    "                elif data > set(i.on_values):\n                    return None")


# ---- benign changes: behaviour-preserving edits that change the emitted C noticeably.  No check may raise an alarm.
BENIGN = []


def benign(name, old, new):
    BENIGN.append({"name": name, "old": old, "new": new})


benign("benign-reverse-state-numbering",
       "        # verify correctness of DFA\n        self._verify_fallthrough_loop()",
       "        # verify correctness of DFA\n        self._verify_fallthrough_loop()\n        self.dfa.states.reverse()")
benign("benign-reverse-if-arm-order",
       "        for j, transition in enumerate((x for x in state.transitions if x != actual_else_transition)):",
       "        for j, transition in enumerate(reversed([x for x in state.transitions if x != actual_else_transition])):")
benign("benign-wider-state-and-padding",
       '            contents.add(self._integer_containing(len(self.dfa.states), signed=False), "state;")',
       '            contents.add("uint32_t reserved_pad[3];")\n            contents.add("uint32_t", "state;")')
benign("benign-range-check-as-subtraction",
       'return f"({ord(min_cpoint)} <= inval && inval <= {ord(max_cpoint)} /* {repr(min_cpoint)} - {repr(max_cpoint)} */)"',
       'return f"((uint8_t)(inval - {ord(min_cpoint)}) <= {ord(max_cpoint) - ord(min_cpoint)} /* {repr(min_cpoint)} - {repr(max_cpoint)} */)"')
benign("benign-start-zeroes-scalars",
       '            # Set starting state\n            contents.add("// set starting state")',
       '            for out_expr in self.state_object_spec:\n                if not out_expr.holds_buflike() and out_expr.default_value is None and out_expr.type != OutputStorageType.ENUM:\n                    contents.add(f"state->c.{out_expr.name} = 0;")\n            # Set starting state\n            contents.add("// set starting state")')


def run_benign(b, props=("C02", "C03", "C04", "C10", "C12", "C17", "C20")):
    src = open(os.path.join(REPO, "nmfu.py")).read()
    if src.count(b["old"]) < 1:
        return {"name": b["name"], "status": "NOT-APPLICABLE (pattern not found)"}
    tree = tempfile.mkdtemp(prefix="nmfuben_")
    try:
        open(os.path.join(tree, "nmfu.py"), "w").write(src.replace(b["old"], b["new"]))
        shutil.copytree(os.path.join(REPO, "example"), os.path.join(tree, "example"))
        shutil.copytree(os.path.join(REPO, "docs"), os.path.join(tree, "docs"))
        shutil.copytree(os.path.join(REPO, "tests"), os.path.join(tree, "tests"))
        res = {"name": b["name"], "alarms": []}
        for prop in props:
            env = dict(os.environ)
            env["NMFU_VERIF_OUT"] = os.path.join(tree, "out")
            p = subprocess.run([os.path.join(VERIF, "check"), prop, "--tier", "quick", "--tree", tree], capture_output=True, text=True, env=env)
            viol = [l for l in p.stdout.splitlines() if l.startswith("violation:") or l.startswith("HARNESS") or l.startswith("INSUFF")]
            res[prop] = p.returncode
            if p.returncode != 0:
                res["alarms"].append((prop, viol[0][:300] if viol else p.stdout.strip().splitlines()[-1][:300]))
        res["status"] = "QUIET" if not res["alarms"] else "FALSE-ALARM"
        return res
    finally:
        shutil.rmtree(tree, ignore_errors=True)


def run_one(m, tier="quick", keep=False):
    src = open(os.path.join(REPO, "nmfu.py")).read()
    if src.count(m["old"]) < 1:
        return {"name": m["name"], "status": "NOT-APPLICABLE (pattern not found)"}
    tree = tempfile.mkdtemp(prefix="nmfumut_")
    try:
        msrc = src.replace(m["old"], m["new"])
        for (o2, n2) in m.get("more", []):
            if msrc.count(o2) < 1:
                return {"name": m["name"], "status": "NOT-APPLICABLE (secondary pattern not found)"}
            msrc = msrc.replace(o2, n2)
        open(os.path.join(tree, "nmfu.py"), "w").write(msrc)
        shutil.copytree(os.path.join(REPO, "example"), os.path.join(tree, "example"))
        shutil.copytree(os.path.join(REPO, "docs"), os.path.join(tree, "docs"))
        res = {"name": m["name"], "caught_by": []}
        for prop in [m["prop"]] + m["extra"]:
            t0 = time.time()
            env = dict(os.environ)
            env["NMFU_VERIF_OUT"] = os.path.join(tree, "out")
            p = subprocess.run([os.path.join(VERIF, "check"), prop, "--tier", tier, "--tree", tree], capture_output=True, text=True, env=env)
            viol = [l for l in p.stdout.splitlines() if l.startswith("violation:")]
            res[prop] = {"rc": p.returncode, "wall": round(time.time() - t0, 1), "first": viol[0][:260] if viol else p.stdout.strip().splitlines()[-1][:260] if p.stdout.strip() else p.stderr[-300:]}
            if p.returncode == 1 and any(l.startswith("VIOLATION property=") for l in p.stdout.splitlines()):
                res["caught_by"].append(prop)
        res["status"] = "CAUGHT" if m["prop"] in res["caught_by"] else "MISSED"
        return res
    finally:
        shutil.rmtree(tree, ignore_errors=True)


def main():
    args = [a for a in sys.argv[1:] if not a.startswith("--")]
    if "--benign" in sys.argv:
        bad = []
        for b in BENIGN:
            if args and b["name"] not in args:
                continue
            r = run_benign(b)
            print(json.dumps(r))
            sys.stdout.flush()
            if r["status"] == "FALSE-ALARM":
                bad.append(b["name"])
        print("benign changes: false alarms on %s" % bad)
        return 1 if bad else 0
    if "--list" in sys.argv:
        for m in M:
            print(m["name"], m["prop"], m["extra"])
        return 0
    tier = "quick"
    sel = [m for m in M if not args or m["name"] in args or m["prop"] in args]
    out = []
    for m in sel:
        r = run_one(m, tier)
        out.append(r)
        print(json.dumps(r))
        sys.stdout.flush()
    missed = [r["name"] for r in out if r["status"] == "MISSED"]
    print("mutants: %d run, %d caught, missed: %s" % (len(out), sum(r["status"] == "CAUGHT" for r in out), missed))
    # replays written by mutant runs are not evidence of anything about /repo
    return 0 if not missed else 1


if __name__ == "__main__":
    sys.exit(main())
